"""Command line of the checks:  check <Cxx> [--tier quick|thorough] [--replay FILE]

exit 0  property held on everything explored (KNOWN-FINDING lines possible)
exit 1  VIOLATION property=<id> replay=<path>
exit 2  HARNESS-ERROR (the machinery itself failed; never reported as a pass)
"""
import argparse
import collections
import faulthandler
import hashlib
import json
import os
import subprocess
import sys
import time

from .pool import forked

HERE = os.path.dirname(os.path.dirname(os.path.abspath(__file__)))
# where replays/ and evidence/ are written (the self-test redirects them to a scratch directory)
OUT = os.path.abspath(os.environ.get('FXSIM_OUT', HERE))

TIERS = {
    # runs, determinism sample, wall-clock safety cap (s)
    'quick': {'runs': 24000, 'det': 160, 'cap': 900},
    'thorough': {'runs': 600000, 'det': 2000, 'cap': 6 * 3600},
}
PROPS = ('C02', 'C04', 'C10', 'C20')
from .run import CHUNK      # noqa: E402  (the chunk size is part of what a run index means)

RULES = {
    'C20': 'one case = one seeded run: a generated program (5-28 top-level ops plus ops run from inside '
           'callbacks) over <=12 live objects with swarm-selected op groups and fault kinds; non-trivial iff '
           'some object was derived from another (constructor/like/deepcopy/arith/bitwise/shift/numpy/getitem) '
           'and afterwards one of the two was mutated in place while the frame condition was evaluated on all '
           'others; distinct = distinct (op-kind, outcome, nesting depth, fault site) sequence x alias-group '
           'size multiset',
    'C02': 'one case = one seeded run (program as for C20 plus shallow routes, in-place sort and huge-magnitude '
           'stores); non-trivial iff at least one object produced by a derive-group op or an in-place format '
           'change was checked against the well-formedness invariant; distinct as for C20',
    'C04': 'one case = one seeded run: history of writes/resets/resizes/mode changes/arithmetic with recording '
           'callbacks; non-trivial iff some flag was raised and a later write, reset, resize or derivation '
           'involved that object; distinct as for C20',
    'C10': 'one case = one seeded run: population of registers converted by all routes in chains; non-trivial '
           'iff some hop was inexact or out of range in its destination and another hop followed it; distinct '
           'as for C20',
}


def eprint(*a):
    print(*a, file=sys.stderr)
    sys.stderr.flush()


# ------------------------------------------------------------------------------------ workers
def _chunk(args):
    prop, verif_seed, start, count, banned, tier = args
    faulthandler.enable()
    faulthandler.dump_traceback_later(600, exit=False)
    from .run import run_one
    stats = collections.Counter()
    sigs = set()
    states = set()
    tris = set()
    viols = []
    digests = hashlib.sha256()
    steps = 0
    nontrivial = 0
    samples = []
    cfg = collections.Counter()
    first_herr = None
    for i in range(start, start + count):
        r = run_one(prop, verif_seed, i, banned=banned, tier=tier)
        if r.harness_error is not None:
            stats['harness_discarded_runs'] += 1
            if first_herr is None:
                first_herr = (i, r.harness_error)
            continue
        steps += r.steps
        stats.update(r.stats)
        digests.update(r.digest.encode())
        for f in r.profile['faults']:
            cfg['configured_' + f] += 1
        cfg['runs_fault_injecting' if r.profile['faults'] else 'runs_fault_free'] += 1
        cfg['family_' + r.profile['family']] += 1
        if r.nontrivial:
            nontrivial += 1
            sigs.add(int(r.signature, 16))
            if len(samples) < 2 and start == 0:
                from .run import run_one as _r
                samples.append({'run_index': i, 'ops': _r(prop, verif_seed, i, keep_ops=True, banned=banned, tier=tier).ops})
        states |= r.states
        tris |= r.trigrams
        if r.violation is not None and len(viols) < 8:
            viols.append({'i': i, 'violation': r.violation, 'ops': r.ops})
    faulthandler.cancel_dump_traceback_later()
    import numpy as np
    as_u64 = lambda xs: np.unique(np.fromiter((x & 0xFFFFFFFFFFFFFFFF for x in xs), dtype=np.uint64, count=len(xs)))
    return {'start': start, 'count': count, 'steps': steps, 'stats': dict(stats), 'sigs': as_u64(sigs),
            'states': as_u64(states), 'tris': as_u64(tris), 'viols': viols, 'digest': digests.hexdigest(),
            'nontrivial': nontrivial, 'samples': samples, 'cfg': dict(cfg), 'herr': first_herr}


def run_batch(prop, verif_seed, runs, workers, cap, banned=(), start=0, tier='quick'):
    tasks = [(prop, verif_seed, s, min(CHUNK, start + runs - s), tuple(banned), tier)
             for s in range(start, start + runs, CHUNK)]
    t0 = time.time()
    marks = set()

    def progress(done, total):
        pct = done * 10 // total
        if total >= 400 and pct not in marks:      # only long batches report progress (to stderr)
            marks.add(pct)
            eprint('  ... %d%% of %d runs after %.0fs' % (pct * 10, runs, time.time() - t0))
    return forked(_chunk, tasks, workers, cap, progress)


# ------------------------------------------------------------------------------------ known findings
def load_known():
    p = os.environ.get('FXSIM_KNOWN') or os.path.join(HERE, 'known_findings.json')
    if not os.path.exists(p):
        return []
    with open(p) as f:
        return json.load(f).get('findings', [])


def match_known(v, known, status='known'):
    for k in known:
        if k.get('status') != status or k['property'] != v['property']:
            continue
        if k['clause'] == v['clause'] and k['culprit'] == v['culprit']:
            return k
    return None


# ------------------------------------------------------------------------------------ replay
def do_replay(prop, path, quiet=False):
    from .run import replay_ops, digest_of
    from .minimise import vclass
    with open(path) as f:
        rp = json.load(f)
    if rp['property'] != prop:
        eprint('HARNESS-ERROR: replay file is for %s' % rp['property'])
        return 2
    w = replay_ops(prop, rp['ops'], rp.get('prelude') or ())
    want = rp.get('violation') or {}
    if w.violations:
        v = w.violations[0]
        same_class = (v['clause'], v['culprit']) == (want.get('clause'), want.get('culprit'))
        if not quiet:
            print('replayed %d ops%s: %s clause=%s culprit=%s step=%s digest=%s%s' % (
                len(rp['ops']), (' after a prelude of %d earlier runs' % len(rp['prelude'])) if rp.get('prelude') else '',
                v['property'], v['clause'], v['culprit'], v['step'], digest_of(w)[:16],
                '' if same_class else '  (different class than recorded: %s/%s)' % (want.get('clause'), want.get('culprit'))))
            print('detail: ' + json.dumps(v['detail'], default=repr))
            print('VIOLATION property=%s replay=%s' % (prop, path))
        return 1
    if not quiet:
        print('NOT-REPRODUCED property=%s replay=%s (the recorded violation does not occur on this tree)' % (prop, path))
    return 0


def replay_in_subprocess(prop, path, hashseed='0'):
    env = dict(os.environ)
    env['PYTHONHASHSEED'] = hashseed
    p = subprocess.run([sys.executable, '-m', 'fxsim.cli', prop, '--replay', path], cwd=HERE, env=env,
                       stdout=subprocess.PIPE, stderr=subprocess.STDOUT, timeout=300)
    return p.returncode, p.stdout.decode(errors='replace')


# ------------------------------------------------------------------------------------ determinism
def det_digest(prop, verif_seed, n):
    from .run import run_one
    h = hashlib.sha256()
    for i in range(n):
        h.update(run_one(prop, verif_seed, i).digest.encode())
    return h.hexdigest()


def _det_twice(args):
    prop, verif_seed, n = args
    return det_digest(prop, verif_seed, n), det_digest(prop, verif_seed, n)


def determinism_check(prop, verif_seed, n):
    """Same seeds twice in one (forked) process and once in a fresh interpreter under another
    hash seed.  Nothing of it runs in the parent, which must stay free of library state."""
    a, b = forked(_det_twice, [(prop, verif_seed, n)], 1, 3600)[0]
    env = dict(os.environ)
    env['PYTHONHASHSEED'] = '4242'
    p = subprocess.run([sys.executable, '-m', 'fxsim.cli', prop, '--det-digest', str(n)], cwd=HERE, env=env,
                       stdout=subprocess.PIPE, stderr=subprocess.PIPE, timeout=1800)
    c = p.stdout.decode().strip().split('\n')[-1] if p.returncode == 0 else 'subprocess failed: ' + p.stderr.decode()[-300:]
    return {'runs': n, 'in_process_twice': a == b, 'fresh_interpreter_other_hashseed': a == c,
            'digest': a, 'ok': a == b == c}


def _replay_quiet(args):
    prop, path = args
    return do_replay(prop, path, quiet=True)


# ------------------------------------------------------------------------------------ main check
def check(prop, tier, args):
    from .run import DEFAULT_SEED
    from .minimise import minimise, minimise_isolated, minimise_with_prelude, vclass, jsonable
    from .run import chunk_ops
    t0 = time.time()
    verif_seed = int(os.environ.get('VERIF_SEED', DEFAULT_SEED))
    conf = dict(TIERS[tier])
    if args.runs:
        conf['runs'] = args.runs
        conf['cap'] = max(conf['cap'], args.runs // 15)     # the cap only bounds hangs
    workers = args.workers or min(16, os.cpu_count() or 1)
    known = load_known()
    exit_code = 0
    lines = []
    print('fxsim check property=%s tier=%s VERIF_SEED=%d runs=%d workers=%d repo=%s' % (
        prop, tier, verif_seed, conf['runs'], workers, os.environ.get('FXSIM_REPO', '/repo')))
    sys.stdout.flush()

    # 1. committed examples of known / fixed findings are replayed first (same output on every seed)
    known_lines = []
    regressions = []
    for k in known:
        if k['property'] != prop or not k.get('example_replay') or os.environ.get('FXSIM_NO_EXAMPLES'):
            continue
        path = os.path.join(HERE, k['example_replay'])
        rc = forked(_replay_quiet, [(prop, path)], 1, 600)[0]
        if k['status'] == 'known':
            if rc == 1:
                known_lines.append('KNOWN-FINDING: property=%s %s' % (prop, k['what']))
            else:
                print('note: known finding no longer reproduces: %s' % k['what'])
        elif k['status'] == 'fixed' and rc == 1:
            regressions.append((k, k['example_replay']))
    for l in known_lines:
        print(l)
    for k, path in regressions:
        print('regression of a fixed finding: %s' % k['what'])
        print('VIOLATION property=%s replay=%s' % (prop, path))
        exit_code = 1

    # 2. determinism sample
    det = determinism_check(prop, verif_seed, conf['det'])
    if not det['ok']:
        # Either the harness is broken, or the library keeps process-global mutable state that
        # leaks from one run into the next (then the search below normally shows it as a plain
        # violation inside a single run).  Decided after the search: never a pass.
        eprint('warning: determinism self-test failed: %r' % (det,))

    # 3. the seeded search
    banned = set()
    chunks = run_batch(prop, verif_seed, conf['runs'], workers, conf['cap'], tier=tier)
    agg = aggregate(chunks)
    reported = {}
    extra_batches = 0
    pending = sorted(agg['viols'], key=lambda x: x['i'])
    handled_classes = set()
    n_viol_runs = len(pending)
    while pending:
        item = pending.pop(0)
        cls = vclass(item['violation'])
        if cls in handled_classes:
            continue
        handled_classes.add(cls)
        small, v, dg, execs = minimise_isolated(prop, item['ops'], item['violation'])
        name = '%s-%d-%d.json' % (prop, verif_seed, item['i'])
        path = os.path.join('replays', name)
        os.makedirs(os.path.join(OUT, 'replays'), exist_ok=True)

        def write(ops, viol, prelude=None, note=None):
            rp = {'property': prop, 'verif_seed': verif_seed, 'run_index': item['i'],
                  'ops': jsonable(ops), 'ops_original': jsonable(item['ops']),
                  'violation': jsonable({k2: viol[k2] for k2 in ('clause', 'culprit', 'step', 'depth', 'op', 'detail')}),
                  'digest': dg, 'minimiser_executions': execs}
            if prelude:
                rp['prelude'] = jsonable(prelude)
                rp['note'] = note
            with open(os.path.join(OUT, path), 'w') as f:
                json.dump(rp, f, indent=1)
            return replay_in_subprocess(prop, os.path.join(OUT, path))

        rc, out = (2, 'minimiser lost the violation') if v is None else write(small, v)
        if rc != 1:
            # the minimised program does not fail on its own: try the run exactly as it was
            v = item['violation']
            small = item['ops']
            rc, out = write(small, v)
        if rc != 1:
            # the run does not fail on its own either: it depends on state the library carried over
            # from the earlier runs of its chunk (every chunk runs in its own forked process)
            first = (item['i'] // CHUNK) * CHUNK
            lists = forked(chunk_ops, [(prop, verif_seed, first, item['i'], tuple(sorted(banned)), tier)], 1, 3600)[0]
            prelude, small = lists[:-1], lists[-1]
            note = ('this violation needs process-global state left behind by earlier runs in the same '
                    'process; the prelude holds those runs (each executed in its own world)')
            rc, out = write(small, v, prelude, note)
            if rc == 1:
                small, prelude, e2 = minimise_with_prelude(prop, small, prelude, v)
                execs += e2
                rc, out = write(small, v, prelude, note)
                print('violation of run %d depends on %d earlier run(s) of its process (library state leaks between runs)'
                      % (item['i'], len(prelude)))
        if rc != 1:
            eprint('HARNESS-ERROR: violation of run %d does not reproduce in a fresh process, neither alone nor '
                   'after the earlier runs of its chunk:\n%s' % (item['i'], out))
            return 2
        k = match_known(v, known, 'known')
        if k is not None:
            line = 'KNOWN-FINDING: property=%s %s' % (prop, k['what'])
            if line not in known_lines:
                known_lines.append(line)
                print(line)
            os.remove(os.path.join(OUT, path))
            banned.add(v['culprit'])
            continue
        print('violation class clause=%s culprit=%s first at run %d, minimised %d -> %d ops (%d executions)' % (
            v['clause'], v['culprit'], item['i'], len(item['ops']), len(small), execs))
        print('detail: ' + json.dumps(jsonable(v['detail'])))
        print('VIOLATION property=%s replay=%s' % (prop, path if OUT == HERE else os.path.join(OUT, path)))
        reported[cls] = path
        exit_code = 1
    # runs that stopped at a known finding are explored again without that op kind
    if banned and exit_code == 0:
        idx = sorted(set(x['i'] for x in agg['viols']))
        from .run import run_one
        for i in idx[:2000]:
            r = run_one(prop, verif_seed, i, keep_ops=True, banned=tuple(sorted(banned)), tier=tier)
            extra_batches += 1
            if r.violation is not None and match_known(r.violation, known, 'known') is None:
                small, v, dg, execs = minimise(prop, r.ops, r.violation)
                name = '%s-%d-%d-b.json' % (prop, verif_seed, i)
                path = os.path.join('replays', name)
                with open(os.path.join(OUT, path), 'w') as f:
                    json.dump({'property': prop, 'verif_seed': verif_seed, 'run_index': i, 'banned': sorted(banned),
                               'ops': jsonable(small), 'ops_original': jsonable(r.ops),
                               'violation': jsonable({k2: v[k2] for k2 in ('clause', 'culprit', 'step', 'depth', 'op', 'detail')}),
                               'digest': dg}, f, indent=1)
                print('VIOLATION property=%s replay=%s' % (prop, path))
                exit_code = 1
                break

    discarded = agg['stats'].get('harness_discarded_runs', 0)
    if discarded:
        eprint('warning: %d of %d runs were discarded because the simulator itself failed; first (run %d):\n%s' % (
            discarded, agg['runs'], agg['herr'][0], agg['herr'][1]))
        if discarded > max(3, agg['runs'] // 2000) and exit_code == 0:
            eprint('HARNESS-ERROR: too many discarded runs')
            return 2
    if not det['ok'] and exit_code == 0:
        eprint('HARNESS-ERROR: determinism self-test failed and the search found no violation: %r' % (det,))
        return 2
    wall = time.time() - t0
    write_evidence(prop, tier, verif_seed, conf, workers, agg, det, wall, n_viol_runs, reported, known_lines,
                   extra_batches)
    print('%s %s: %d runs, %d steps, %d non-trivial (%d distinct), %d violating runs, %.1fs, %.0f runs/h' % (
        prop, tier, agg['runs'], agg['steps'], agg['nontrivial'], len(agg['sigs']), n_viol_runs, wall,
        agg['runs'] / max(wall, 1e-9) * 3600))
    return exit_code


def aggregate(chunks):
    import numpy as np
    agg = {'runs': 0, 'steps': 0, 'stats': collections.Counter(), 'sigs': [], 'states': [],
           'tris': [], 'viols': [], 'nontrivial': 0, 'samples': [], 'cfg': collections.Counter()}
    h = hashlib.sha256()
    for c in sorted(chunks, key=lambda c: c['start']):
        agg['runs'] += c['count']
        agg['steps'] += c['steps']
        agg['stats'].update(c['stats'])
        agg['cfg'].update(c['cfg'])
        for k in ('sigs', 'states', 'tris'):
            agg[k].append(c[k])
            if len(agg[k]) >= 256:      # keep the working set small: merge and de-duplicate as we go
                agg[k] = [np.unique(np.concatenate(agg[k]))]
        agg['viols'].extend(c['viols'])
        agg['nontrivial'] += c['nontrivial']
        agg['samples'].extend(c['samples'])
        h.update(c['digest'].encode())
    for k in ('sigs', 'states', 'tris'):
        agg[k] = np.unique(np.concatenate(agg[k])) if agg[k] else np.zeros(0, dtype=np.uint64)
    agg['digest'] = h.hexdigest()
    agg['herr'] = next((c['herr'] for c in sorted(chunks, key=lambda c: c['start']) if c.get('herr')), None)
    return agg


PROBES = {
    'C20': ['view_created', 'view_of_view', 'chained_setitem', 'register_write', 'register_configured',
            'adopted_register', 'container_used', 'fault_F5_template_flip', 'fault_F6_container_mutated',
            'fault_F1_injected', 'fault_F3_fired', 'fault_F4_fired', 'abandoned_dest',
            'chained_setitem_root_checked', 'chained_setitem_through_0d_view', 'clip_bound_from_container',
            'arith_operand_from_container', 'reentrant_write_repeated_without_interleaving',
            'getitem_advanced_index', 'setitem_advanced_index', 'scalar_indexed_store_region_uniform', 'exported_snapshot',
            'iterated_list', 'iterated_for', 'iterated_next', 'iterated_siblings_kept', 'resize_dtype_with_sizes_rejected'],
    'C02': ['sat_store_checked', 'sat_store_beyond_2_64', 'view_created', 'register_write',
            'fault_F3_fired', 'fault_F4_fired', 'fault_F10_fired', 'iterated_siblings_kept', 'resize_dtype_with_sizes_rejected'],
    'C04': ['c04_write_judged', 'c04_callback_set_judged', 'c04_write_beyond_input_domain_judged', 'c04_arith_value_not_exact_not_judged', 'failed_write_dest_kept', 'probe_ovf_and_udf_in_one_write',
            'probe_flag_raising_write', 'probe_inaccuracy_propagated', 'probe_reset_of_raised_flag',
            'register_write', 'fault_F3_fired', 'fault_F4_fired', 'fault_F8_fired', 'c04_selfwrite_judged',
            'fault_F8_reset_fired', 'c04_selfreset_judged', 'c04_rejected_before_store_judged'],
    'C10': ['c10_hop_judged', 'c10_hop_inexact_or_out_of_range', 'c10_hop_all_codes_of_source_format', 'c10_hop_out_of_domain', 'c10_hop_rescaled_code_beyond_62_bits', 'c10_route_resize', 'c10_route_resize_dtype',
            'c10_route_like_kw', 'c10_route_like_method', 'c10_route_ctor_from', 'c10_route_set_from_call',
            'c10_route_set_from_set_val', 'c10_route_equal', 'c10_route_setitem_from', 'self_conversion',
            'fault_F3_fired', 'fault_F5_template_flip'],
}


def write_evidence(prop, tier, verif_seed, conf, workers, agg, det, wall, n_viol, reported, known_lines, extra):
    st = agg['stats']
    faults = {}
    for k in ('F1', 'F2', 'F3', 'F4', 'F5', 'F6'):
        faults[k] = {'runs_configured': agg['cfg'].get('configured_' + k, 0)}
    faults['F1']['injected'] = st.get('fault_F1_injected', 0)
    faults['F2']['fired_rejected_ops'] = st.get('outcome_rejected', 0) - st.get('fault_F1_injected', 0)
    faults['F3'].update(armed=st.get('fault_F3_armed', 0), fired=st.get('fault_F3_fired', 0),
                        fired_by_site={s: st.get('fault_F3_fired_' + s, 0) for s in
                                       ('on_status_overflow', 'on_status_underflow', 'on_status_inaccuracy', 'on_value_change')})
    faults['F4'].update(armed=st.get('fault_F4_armed', 0), fired=st.get('fault_F4_fired', 0),
                        fired_by_site={s: st.get('fault_F4_fired_' + s, 0) for s in
                                       ('on_status_overflow', 'on_status_underflow', 'on_status_inaccuracy', 'on_value_change')})
    faults['F3'].update(strict_handlers_armed=st.get('fault_F3_strict_armed', 0),
                        strict_handlers_fired=st.get('fault_F3_strict_fired', 0),
                        strict_handlers_fired_on_library_temporaries=st.get('fault_F3_strict_fired_on_temporary', 0))
    faults['F2'].update(rejected_value_write_destination_kept=st.get('failed_write_dest_kept', 0))
    faults['F9'] = {'what': 'registered callbacks replaced by the caller (equal or unequal newcomers)',
                    'replacements': st.get('callbacks_replaced', 0)}
    faults['F7'] = {'what': 'callback that unregisters itself while being notified',
                    'armed': st.get('fault_F7_unregister_armed', 0), 'fired': st.get('fault_F7_unregister_fired', 0)}
    faults['F8'] = {'what': 'callback that writes to the object it is being notified about, mid-write (C04 only)',
                    'runs_configured': agg['cfg'].get('configured_F8', 0),
                    'armed': st.get('fault_F8_armed', 0), 'fired': st.get('fault_F8_fired', 0),
                    'dropped_not_the_destination': st.get('fault_F8_dropped', 0),
                    'steps_judged_exactly': st.get('c04_selfwrite_judged', 0),
                    'fired_by_site': {s: st.get('fault_F8_fired_' + s, 0) for s in
                                      ('on_status_overflow', 'on_status_underflow', 'on_status_inaccuracy', 'on_value_change')}}
    faults['F5']['template_flips'] = st.get('fault_F5_template_flip', 0)
    faults['F5']['config_template_flips'] = st.get('fault_F5_config_template_flip', 0)
    faults['F6']['caller_config_mutations'] = st.get('fault_F6_caller_config_mutated', 0)
    faults['F6']['container_mutations'] = st.get('fault_F6_container_mutated', 0)
    ev = {
        'property_id': prop, 'tier': tier, 'seed': verif_seed, 'level': 'exploration',
        'coverage': {
            'evaluations': agg['runs'],
            'distinct_nontrivial': len(agg['sigs']),
            'nontrivial_runs': agg['nontrivial'],
            'rule': RULES[prop],
            'samples': agg['samples'][:3],
            'exhaustive': False,
            'simulated_steps': agg['steps'],
            'simulated_time': 'none: the library has no clock; logical time is the global event sequence number',
            'runs_per_hour': int(agg['runs'] / max(wall, 1e-9) * 3600),
            'run_split': {'fault_free': agg['cfg'].get('runs_fault_free', 0),
                          'fault_injecting': agg['cfg'].get('runs_fault_injecting', 0)},
            'format_families': {k[7:]: v for k, v in agg['cfg'].items() if k.startswith('family_')},
            'faults': faults,
            'rejected_or_aborted_by_exception_type': {k[4:]: v for k, v in st.items() if k.startswith('exc_')},
            'callback_invocations': {k[3:]: v for k, v in st.items() if k.startswith('cb_on_')},
            'reach_probes': {k: st.get(k, 0) for k in PROBES[prop]},
            'generator_fallbacks': {k: v for k, v in st.items() if k.startswith('generator_fallback')},
            'harness_discarded_runs': st.get('harness_discarded_runs', 0),
            'distinct_abstract_world_states': len(agg['states']),
            'distinct_op_trigrams': len(agg['tris']),
            'determinism_sample': det,
            'batch_digest': agg['digest'],
            'workers': workers,
            'violating_runs': n_viol,
            'violation_classes_reported': {'%s/%s' % (c[1], c[2]): p for c, p in reported.items()},
            'known_findings_printed': known_lines,
            'runs_re_explored_without_known_culprit': extra,
            'components': {
                'real': ['fxpmath.objects', 'fxpmath.functions', 'fxpmath.utils', 'numpy'],
                'simulated': ['client actors (program generator)', 'callback bodies (recording, raising, re-entrant)',
                              'caller-owned containers', 'owner of the global Fxp.template'],
                'stubbed': [],
            },
        },
        'assumptions': [
            'seeded sampling of histories, not enumeration: a clean batch is evidence, not proof',
            'the exact-rational reference quantizer (fxsim/quant.py, self-tested) is the oracle for values and flags',
            'core domain only: real, unscaled objects, n_word<=52 (a thin 64-70 bit slice in C02), |v|<2^53, |v*2^n_frac|<2^62',
            'exception safety of an aborted in-place operation is not judged (no property states it): the destination is abandoned',
        ],
        'wall_s': round(wall, 2),
        'violations': len(reported),
    }
    os.makedirs(os.path.join(OUT, 'evidence'), exist_ok=True)
    with open(os.path.join(OUT, 'evidence', prop + '.json'), 'w') as f:
        json.dump(ev, f, indent=1, default=repr)
    # a per-tier copy, so that a later quick run does not erase the record of a thorough one
    with open(os.path.join(OUT, 'evidence', '%s.%s.json' % (prop, tier)), 'w') as f:
        json.dump(ev, f, indent=1, default=repr)


def main(argv=None):
    ap = argparse.ArgumentParser()
    ap.add_argument('prop', choices=PROPS)
    ap.add_argument('--tier', default=os.environ.get('VERIF_TIER', 'quick'), choices=sorted(TIERS))
    ap.add_argument('--replay')
    ap.add_argument('--runs', type=int)
    ap.add_argument('--workers', type=int)
    ap.add_argument('--det-digest', type=int)
    args = ap.parse_args(argv)
    try:
        if args.det_digest:
            from .run import DEFAULT_SEED
            print(det_digest(args.prop, int(os.environ.get('VERIF_SEED', DEFAULT_SEED)), args.det_digest))
            return 0
        if args.replay:
            return do_replay(args.prop, args.replay)
        return check(args.prop, args.tier, args)
    except SystemExit:
        raise
    except BaseException as e:  # anything unexpected is a harness fault, never a pass
        import traceback
        traceback.print_exc()
        eprint('HARNESS-ERROR: %s: %s' % (type(e).__name__, e))
        return 2


if __name__ == '__main__':
    sys.exit(main())
