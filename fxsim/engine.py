"""The simulated world: live objects, alias model, callback seam, op execution.

Every op is a JSON-serialisable dict with concrete arguments.  Slot references are integers
resolved modulo the number of live (and not in-flight) slots, so any subsequence of a program is
still a program.  Execution never draws from a PRNG and never reads a clock.
"""
import copy
import os
from fractions import Fraction

import numpy as np

from . import lib
from .lib import Fxp, Config, fxf
from . import values as V
from . import quant as Q

_HERE = os.path.dirname(os.path.abspath(__file__))
MAX_SLOTS = 12
MAX_DEPTH = 2

CFG_FIELDS = ('max_error', 'n_word_max', 'overflow', 'rounding', 'shifting', 'op_method',
              'op_input_size', 'op_out', 'op_out_like', 'op_sizing', 'const_op_sizing',
              'array_output_type', 'array_op_out', 'array_op_out_like', 'array_op_method',
              'dtype_notation', 'bin_prefix', 'hex_prefix')
REG_FIELDS = ('op_out', 'op_out_like', 'array_op_out', 'array_op_out_like')
SITES = ('on_status_overflow', 'on_status_underflow', 'on_status_inaccuracy', 'on_value_change')


from fxpmath.callbacks import Callback as _LibCallback      # noqa: E402  (imported through .lib: /repo's)


class SimFault(Exception):
    """Raised by a simulator-owned callback (fault F3)."""


class SimCopyFault(TypeError):
    """Raised when the library tries to deep-copy a simulator-owned callback that cannot be copied (a
    handler holding a lock, an open file, a generator ...): to the library a TypeError like any other,
    to the engine a rejected operation - never a harness fault."""


class Skip(Exception):
    """The op cannot be planned in the current world (no live slot, wrong shape, ...)."""


class HarnessError(Exception):
    pass


_CUR = [None]  # the world currently executing (callbacks find it here; never two at once)


SITES_ALL = ('on_status_overflow', 'on_status_underflow', 'on_status_inaccuracy', 'on_value_change')


class SimCallback(object):
    """Recording callback owned by the simulator.  Deep copies made by the library (like=,
    deepcopy, templates) become fresh, unarmed recorders registered with the same world."""

    def __init__(self, cid, clone_of=None):
        self.cid = cid
        self.clone_of = clone_of
        self.armed = {}
        self.owner = None     # the object this callback was registered on (None for library-made clones)
        # value equality, as a dataclass-style handler has it: two callbacks are == iff their labels
        # are; a label is unique unless the simulated caller makes a twin on purpose (op cb_replace)
        self.label = cid
        self.retired = False  # taken out of its object's list by the caller: owed no notification
        self.nocopy = False   # a handler that cannot be deep-copied (fault F2: derivations from its object are rejected)
        self.set_sites(SITES_ALL)  # the handlers this callback implements

    def __eq__(self, other):
        return isinstance(other, SimCallback) and other.label == self.label

    def __ne__(self, other):
        return not self.__eq__(other)

    def __hash__(self):
        return hash(('SimCallback', self.label))

    def __deepcopy__(self, memo):
        w = _CUR[0]
        if self.nocopy:
            w.bump('fault_F2_uncopyable_callback_hit')
            raise SimCopyFault("cannot pickle '_thread.lock' object")
        c = type(self)(w.new_cid(), clone_of=self.cid)
        c.set_sites(self.sites)
        # a STRICT handler (one that raises whenever it is notified at its site) is strict by its
        # code, not by a one-shot arming: the copies the library makes of it are strict too
        for site, act in self.armed.items():
            if act.get('sticky'):
                c.armed[site] = dict(act)
        w.all_cbs.append(c)
        return c

    def __copy__(self):
        return self

    def set_sites(self, sites):
        self.sites = tuple(x for x in SITES_ALL if x in sites)

    # The four handlers are not class attributes: a callback implements the subset named in
    # `self.sites` (all four by default), and the library asks with hasattr() before it calls.
    def __getattr__(self, name):
        if name in SITES_ALL:
            if name in self.__dict__.get('sites', SITES_ALL):
                def handler(obj, logs=None, _self=self, _site=name):
                    _CUR[0].cb_fire(_self, _site, obj)
                return handler
        raise AttributeError(name)


class SimCallbackDerived(SimCallback, _LibCallback):
    """The other way of writing a callback: an instance of the library's own `Callback` base class
    (which has an empty handler for every event) with the handlers it implements attached to the
    INSTANCE; for the events it does not implement the base class's empty handler answers."""

    def set_sites(self, sites):
        for x in SITES_ALL:
            self.__dict__.pop(x, None)
        self.sites = tuple(x for x in SITES_ALL if x in sites)
        for x in self.sites:
            def handler(obj, logs=None, _self=self, _site=x):
                _CUR[0].cb_fire(_self, _site, obj)
            self.__dict__[x] = handler


class Slot(object):
    __slots__ = ('obj', 'token', 'pos', 'alive', 'origin', 'tainted', 'source_only')

    def __init__(self, obj, token, pos, origin):
        self.obj = obj
        self.token = token
        self.pos = pos
        self.alive = True
        self.origin = origin
        self.tainted = False
        self.source_only = False     # kept after a resize aborted before its store: read, never written


class Store(object):
    """Facts about the value store a step performs (consumed by the C02/C04/C10 oracles)."""
    __slots__ = ('target', 'vals', 'raw', 'src', 'src_index', 'prop', 'region', 'route',
                 'modes_from', 'kw_modes', 'fmt_req', 'judge_flags', 'judge_cb', 'arith')

    def __init__(self, target, vals=None, raw=False, src=None, prop=(), region=None, route=None,
                 modes_from=None, kw_modes=None, fmt_req=None, judge_flags=True, judge_cb=True,
                 arith=None, src_index=None):
        self.target = target          # 'dest' | 'new'
        self.vals = vals              # (shape, flat Fractions) exact input VALUES (not codes) or None
        self.raw = raw
        self.src = src                # slot index of an Fxp source (conversion) or None
        self.src_index = src_index
        self.prop = tuple(prop)       # operand slots whose inaccuracy must propagate
        self.region = region          # decoded index for indexed writes
        self.route = route
        self.modes_from = modes_from  # ('slot', i) | ('kw', {...}) | None -> who governs rounding/overflow
        self.kw_modes = kw_modes
        self.fmt_req = fmt_req        # requested destination format (s, w, f) or None
        self.judge_flags = judge_flags
        self.judge_cb = judge_cb
        self.arith = arith


class Step(object):
    def __init__(self, op, depth, seq):
        self.op = op
        self.depth = depth
        self.seq = seq
        self.kind = 'noop'
        self.dest = None
        self.index = None
        self.srcs = []
        self.wset = set()
        self.wthrough = None
        self.pure = False
        self.expect_reject = False
        self.store = None
        self.new = []
        self.ret = None
        self.ret_slot = None
        self.outcome = 'skipped'
        self.exc = None
        self.exc_obj = None
        self.nested = []
        self.cb_events = []
        self.pre = None
        self.pre_tpl = None
        self.extra = {}
        self.inflight = set()
        self.reg_expected = None      # slot index the result must be (register routing)
        self.transients = []          # objects created but not kept (checked by C02)
        self.redo = None              # fn(target_obj, src_obj) repeating this step's library call


def decode_value(v):
    """Configuration values that JSON cannot carry as such: {'np': [...]} is a NumPy array of those
    items, {'np0': x} a 0-d NumPy array, {'bytes': 'wrap'} a bytes object, {'tuple': [...]} a tuple."""
    if isinstance(v, dict):
        if 'np' in v:
            return np.array(v['np'])
        if 'np0' in v:
            return np.array(v['np0'])
        if 'bytes' in v:
            return v['bytes'].encode()
        if 'tuple' in v:
            return tuple(v['tuple'])
    return v


def decode_index(ix):
    if isinstance(ix, list):
        if ix and ix[0] == 'sl':
            return slice(ix[1], ix[2], ix[3])
        if ix and ix[0] == 'el':
            return Ellipsis
        # advanced indexes - the caller's own containers, built afresh on every decode:
        if ix and ix[0] == 'fx':
            return [int(i) for i in ix[1]]                       # a list of integers  x[[0, 2]]
        if ix and ix[0] == 'ia':
            return np.array(ix[1], dtype=np.intp)                # an integer array     x[np.array([0, 2])]
        if ix and ix[0] == 'bm':
            return np.array(ix[1], dtype=bool)                   # a boolean mask       x[mask]
        return tuple(decode_index(i) for i in ix)
    return ix


def index_is_advanced(ix):
    if isinstance(ix, list):
        if ix and ix[0] in ('fx', 'ia', 'bm'):
            return True
        if ix and ix[0] in ('sl', 'el'):
            return False
        return any(index_is_advanced(i) for i in ix)
    return False


def same_index(a, b):
    """Structural equality of two decoded indexes (lists, arrays, tuples of them)."""
    if type(a) is not type(b):
        return False
    if isinstance(a, tuple):
        return len(a) == len(b) and all(same_index(x, y) for x, y in zip(a, b))
    if isinstance(a, np.ndarray):
        return a.dtype == b.dtype and a.shape == b.shape and bool(np.all(a == b))
    if isinstance(a, list):
        return len(a) == len(b) and all(type(x) is type(y) and x == y for x, y in zip(a, b))
    return a is b or a == b


def codes_of(obj):
    a = np.asarray(obj.val)
    return tuple(a.shape), a.dtype.kind, a.ravel().tolist()


class World(object):
    def __init__(self, oracles=(), profile=None):
        self.slots = []
        self.containers = []      # [obj, pristine]
        self.configs = []         # caller-owned Config instances handed to constructors (config=)
        self.cfg_template = None  # index into configs of the object installed as Config.template
        self.config_pristine = []  # what each caller-owned Config looked like when the caller last touched it
        self.template = None      # slot index whose object is Fxp.template
        self.all_cbs = []
        self._cid = 0
        self._token = 0
        self.seq = 0
        self.log = []
        self.oracles = list(oracles)
        self.violations = []
        self.stack = []
        self.profile = profile or {}
        self.stats = {}
        self.halt = False
        self.pending_owner = []
        self.shadowing = any(getattr(o, 'wants_shadow', False) for o in self.oracles)
        # the aliasing oracle cannot know whether a failed write already swapped the buffer
        # (as built, session 3: no longer - whether a failed write swapped the buffer is OBSERVED, and an
        #  indexed store never replaces it; the destination of a failed value write stays in play in every
        #  profile, so that what later writes through its views do is still judged)
        self.strict_abandon = False
        # route agreement (C10) is about the stored value - codes and n_frac - whatever else is stale:
        # there the destination of a resize aborted BEFORE its store (new sizes over old codes, the
        # state the pinned code leaves) stays in play as a source and destination of later conversions
        self.keep_aborted_resize = bool(self.oracles) and all(getattr(o, 'prop', None) == 'C10' for o in self.oracles)

    # ------------------------------------------------------------------ bookkeeping
    def new_cid(self):
        self._cid += 1
        return self._cid

    def new_token(self):
        self._token += 1
        return self._token

    def bump(self, key, n=1):
        self.stats[key] = self.stats.get(key, 0) + n

    def live(self, exclude=()):
        return [i for i, s in enumerate(self.slots) if s.alive and i not in exclude]

    def inflight(self):
        out = set()
        for st in self.stack:
            out |= st.inflight
        return out

    def ref(self, r, pred=None):
        """Resolve an integer reference to a live, not-in-flight slot index.  The reference
        counts over all candidates; if the slot it lands on does not satisfy `pred`, it is
        re-resolved over the candidates that do (so shrunk programs stay meaningful)."""
        busy = self.inflight()
        cand = self.live(busy)
        if busy:
            # inside a callback: objects whose result registers lead to an in-flight (half
            # written) object are off limits too, the library would deep-copy that object
            bo = [self.slots[i].obj for i in busy]
            cand = [i for i in cand if not any(self.reg_reaches(self.slots[i].obj, b) for b in bo)]
            if self.cfg_template is not None:
                # every construction copies the global Config.template, registers included
                tcfg = self.configs[self.cfg_template]
                for f in REG_FIELDS:
                    treg = getattr(tcfg, '_' + f, None)
                    if isinstance(treg, Fxp) and any(self.reg_reaches(treg, b) for b in bo):
                        raise Skip('Config.template leads to an object in flight')
        bad = [s.obj for s in self.slots if s.tainted]
        if bad:
            # an abandoned (aborted in place) object may still sit in somebody's config as a result
            # register or template; operations that would go through it are not generated
            cand = [i for i in cand if not any(self.reg_reaches(self.slots[i].obj, b) for b in bad)]
        if not cand:
            raise Skip('no slot')
        c = cand[r % len(cand)]
        if pred is not None and not pred(self.slots[c].obj):
            f = [i for i in cand if pred(self.slots[i].obj)]
            if not f:
                raise Skip('no slot')
            c = f[r % len(f)]
        return c

    def slot_any(self, obj):
        for i, s in enumerate(self.slots):
            if s.obj is obj:
                return i
        return None

    def slot_of(self, obj):
        for i, s in enumerate(self.slots):
            if s.alive and s.obj is obj:
                return i
        return None

    def add_slot(self, obj, token=None, pos=None, origin='new'):
        if not isinstance(obj, Fxp):
            raise HarnessError('add_slot: not an Fxp: %r' % type(obj))
        if token is None:
            token = self.new_token()
        if pos is None:
            sh = np.asarray(obj.val).shape
            pos = np.arange(int(np.prod(sh, dtype=int))).reshape(sh)
        self.slots.append(Slot(obj, token, pos, origin))
        return len(self.slots) - 1

    def fresh_buffer(self, i):
        """Slot i received a brand-new value buffer (non-indexed in-place op)."""
        s = self.slots[i]
        s.token = self.new_token()
        sh = np.asarray(s.obj.val).shape
        s.pos = np.arange(int(np.prod(sh, dtype=int))).reshape(sh)

    def kill(self, i):
        s = self.slots[i]
        s.alive = False
        if self.template == i:
            Fxp.template = None
            self.template = None

    def group(self, i):
        t = self.slots[i].token
        return [j for j in self.live() if self.slots[j].token == t]

    def caller_forgets(self, bad):
        """The simulated caller stops naming an abandoned object as a register in its own Configs
        (otherwise every later construction from them would deep-copy a half-written object)."""
        for c in self.configs:
            for f in REG_FIELDS:
                r = getattr(c, '_' + f, None)
                if isinstance(r, Fxp) and self.reg_reaches(r, bad):
                    setattr(c, f, None)
                    self.bump('caller_config_register_dropped')
        self.config_pristine = [self.snap_cfg(c) for c in self.configs]

    def reg_reaches(self, a, b, depth=0):
        """True iff object b is reachable from a through result-register fields (or a is b)."""
        if a is b or getattr(a, 'config', None) is getattr(b, 'config', 0):
            return True
        if depth > 6:
            return True
        cfg = getattr(a, 'config', None)
        for f in REG_FIELDS:
            r = getattr(cfg, '_' + f, None)
            if isinstance(r, Fxp) and self.reg_reaches(r, b, depth + 1):
                return True
        return False

    def adopt_registers(self):
        """Objects reachable as result registers of a live object's config are user-visible;
        give them a slot so they are snapshotted and checked like everything else."""
        changed = True
        rounds = 0
        while changed and rounds < 3:
            changed = False
            rounds += 1
            for i in self.live():
                cfg = self.slots[i].obj.config
                for f in REG_FIELDS:
                    r = getattr(cfg, '_' + f, None)
                    if isinstance(r, Fxp) and self.slot_of(r) is None:
                        k = self.slot_any(r)
                        if k is not None:
                            # dropped by its owner but still reachable as a register: it lives on
                            # (unless it was abandoned after an aborted in-place operation)
                            if not self.slots[k].tainted:
                                self.slots[k].alive = True
                                self.bump('revived_register')
                                changed = True
                        elif len(self.live()) < MAX_SLOTS:
                            self.add_slot(r, origin='register-copy')
                            self.bump('adopted_register')
                            changed = True

    # ------------------------------------------------------------------ snapshots
    def snap_cfg(self, cfg):
        """Field-by-field image of a caller-owned Config (registers by identity)."""
        out = []
        for f in CFG_FIELDS:
            v = getattr(cfg, '_' + f, None)
            out.append((f, ('obj', id(v)) if isinstance(v, Fxp) else v))
        return tuple(out)

    def snap_obj(self, obj):
        cfg = obj.config
        c = []
        for f in CFG_FIELDS:
            v = getattr(cfg, '_' + f, None)
            if isinstance(v, Fxp):
                k = self.slot_any(v)
                v = ('slot', k) if k is not None else ('hidden', v.signed, v.n_word, v.n_frac,
                                                       codes_of(v), tuple(sorted(v.status.items())))
            c.append((f, v))
        return {
            'fmt': (obj.signed, obj.n_word, obj.n_frac),
            'n_int': obj.n_int, 'upper': obj.upper, 'lower': obj.lower, 'precision': obj.precision,
            'scale': obj.scale, 'bias': obj.bias,
            'codes': codes_of(obj),
            'status': tuple(sorted(obj.status.items())) if isinstance(obj.status, dict) else repr(obj.status),
            'cfg': tuple(c),
            'cbs': tuple(getattr(cb, 'cid', -1) for cb in (obj.callbacks or [])),
            'dtype': obj.dtype,
        }

    def snapshot(self):
        return {i: self.snap_obj(self.slots[i].obj) for i in self.live()}

    # ------------------------------------------------------------------ callbacks
    def cb_fire(self, cb, site, obj):
        st = self.stack[-1] if self.stack else None
        k = self.slot_of(obj)
        if st is not None:
            st.cb_events.append((cb.cid, site, k))
            if cb.retired and 'retired_cb' not in st.extra:
                st.extra['retired_cb'] = (cb.cid, site, k)
            if cb.owner is not None and cb.owner is not obj and 'foreign_cb' not in st.extra:
                st.extra['foreign_cb'] = (cb.cid, site, k, self.slot_any(cb.owner))
        self.bump('cb_' + site)
        act = cb.armed.pop(site, None)
        if act is None:
            return
        if act.get('sticky'):
            cb.armed[site] = act
        if 'ctor_write' in act:
            if st is not None and k is None and st.op.get('op') == 'new' and 'ctor_inner_flags' not in st.extra:
                self.bump('fault_F8_write_during_construction')
                try:
                    obj.set_val(V.carrier(act['ctor_write']))
                    st.extra['ctor_inner_flags'] = {f: bool(obj.status.get(f)) for f in ('overflow', 'underflow', 'inaccuracy')} \
                        if isinstance(obj.status, dict) else {}
                except Exception:
                    st.extra['ctor_inner_flags'] = {}
            return
        if act.get('unregister'):
            # a one-shot callback: removes itself from the object's list while being notified
            self.bump('fault_F7_unregister_fired')
            if st is not None:
                st.extra.setdefault('f7_cids', set()).add(cb.cid)
            try:
                obj.callbacks.remove(cb)
            except (ValueError, AttributeError):
                pass
            return
        if act.get('selfwiden'):
            # fault F10 (C02 profile): the handler WIDENS the word of the object it is notified about while that
            # object's resize() is re-storing the value ("grow on overflow"); whatever the values end up as, the
            # object must come out well-formed - metadata and dtype string spelling the format it really has
            if st is None or k is None or k != st.dest or st.op.get('op') != 'resize' or st.depth != 0 \
                    or st.extra.get('selfwiden') or not isinstance(obj.n_word, int) or obj.n_word + act['selfwiden'] > 52:
                self.bump('fault_F10_dropped')
                return
            self.bump('fault_F10_fired')
            st.extra['selfwiden'] = act['selfwiden']
            obj.resize(n_word=obj.n_word + act['selfwiden'])
            return
        if act.get('selfreset'):
            # fault F8, second form: the handler calls reset() on the object it is notified about
            # (a "count and re-arm" handler), in the middle of that object's write
            if st is None or k is None or k != st.dest or st.store is None or st.store.target != 'dest' \
                    or not (st.kind in ('inplace', 'indexed') or (st.kind == 'derive' and st.store.arith is not None)) \
                    or st.extra.get('selfwrites') or 'selfreset_at' in st.extra:
                self.bump('fault_F8_dropped')
                return
            self.bump('fault_F8_reset_fired')
            st.extra['selfreset_at'] = len(st.cb_events)     # events recorded so far (this one included)
            st.extra['selfreset_site'] = site
            obj.reset()
            return
        if 'selfwrite' in act:
            # fault F8: the callback writes to the very object it is being notified about, while
            # that object's own write is still in flight (a "corrective" handler)
            if st is None or k is None or k != st.dest or st.store is None or st.store.target != 'dest' \
                    or st.kind not in ('inplace', 'indexed') or st.extra.get('selfwrites'):
                self.bump('fault_F8_dropped')
                return
            self.bump('fault_F8_fired')
            self.bump('fault_F8_fired_' + site)
            rec = {'site': site, 'val': act['selfwrite'], 'entry_val': np.array(obj.val, copy=True),
                   'fmt': (obj.signed, obj.n_word, obj.n_frac)}
            st.extra['selfwrites'] = [rec]
            c = V.carrier(act['selfwrite'])
            if act.get('via') == 'set_val':
                obj.set_val(c)
            else:
                obj(c)
            rec['inner_val'] = np.array(obj.val, copy=True)
            rec['done'] = True
            return
        if act.get('raise'):
            if act.get('sticky'):
                self.bump('fault_F3_strict_fired')
                if k is None:
                    self.bump('fault_F3_strict_fired_on_temporary')
            self.bump('fault_F3_fired')
            self.bump('fault_F3_fired_' + site)
            if st is not None:
                st.extra['f3_site'] = site
                st.extra['f3_slot'] = k       # None: fired for a temporary the library built (a copy of the handler)
            raise SimFault(site)
        ops = act.get('ops') or []
        if st is None or st.depth + 1 > MAX_DEPTH:
            return
        self.bump('fault_F4_fired')
        self.bump('fault_F4_fired_' + site)
        st.extra['f4_site'] = site
        for iop in ops:
            if self.halt:
                break
            inner = self.execute(iop, depth=st.depth + 1)
            st.nested.append(inner)

    # ------------------------------------------------------------------ execution
    def execute(self, op, depth=0):
        prev = _CUR[0]
        _CUR[0] = self
        try:
            return self._execute(op, depth)
        finally:
            _CUR[0] = prev

    def _execute(self, op, depth):
        self.seq += 1
        st = Step(op, depth, self.seq)
        fn = getattr(self, 'op_' + op['op'], None)
        if fn is None:
            raise HarnessError('unknown op %r' % (op.get('op'),))
        if depth == 0:
            self.adopt_registers()
        gen = fn(st)
        try:
            next(gen)
        except Skip:
            st.outcome = 'skipped'
            self.log.append((st.seq, depth, op['op'], 'skipped'))
            return st
        except StopIteration:
            raise HarnessError('op %s did not yield' % op['op'])
        # plan complete
        if any(self.slots[i].source_only for i in (set(st.wset) | ({st.dest} if st.dest is not None else set()))):
            # (the storage type of such an object may not even match its signedness any more: what a
            #  write into it does is exception safety, which no property states)
            st.outcome = 'skipped'
            self.log.append((st.seq, depth, op['op'], 'skipped'))
            gen.close()
            return st
        if st.dest is not None:
            st.inflight = set(self.group(st.dest)) | {st.dest}
        st.pre = self.snapshot()
        st.pre_tpl = self.template
        st.extra['pre_alias'] = {i: (self.slots[i].token, self.slots[i].pos) for i in self.live()}
        for o in self.oracles:
            o.before(self, st)
        shadow = None
        if st.redo is not None and depth == 0 and st.dest is not None and self.shadowing:
            dobj = self.slots[st.dest].obj
            if any(isinstance(c, SimCallback) and any('ops' in a for a in c.armed.values())
                   for c in (dobj.callbacks or [])):
                # a re-entrant callback may fire during this write: keep private copies of the
                # destination (callbacks removed) and of the Fxp source, to repeat the same write
                # afterwards WITHOUT the interleaving and compare (fault F4, DESIGN 5.4)
                try:
                    shadow = copy.deepcopy(dobj)
                    shadow.callbacks = []
                    ssrc = copy.deepcopy(self.slots[st.srcs[0]].obj) if st.srcs else None
                    if ssrc is not None:
                        ssrc.callbacks = []
                except Exception:
                    shadow = None
        dest_val_ref = self.slots[st.dest].obj.val if st.dest is not None else None
        self.stack.append(st)
        try:
            try:
                next(gen)
                raise HarnessError('op %s yielded twice' % op['op'])
            except StopIteration:
                st.outcome = 'ok'
            except SimFault as e:
                st.outcome = 'aborted'
                st.exc = 'SimFault'
                st.exc_obj = e
            except SimCopyFault as e:
                st.outcome = 'rejected'
                st.exc = 'TypeError'
                st.exc_obj = e
            except (HarnessError, Skip, AssertionError):
                raise
            except RecursionError:
                raise
            except Exception as e:  # the library rejected the operation
                tb = e.__traceback__
                while tb is not None and tb.tb_next is not None:
                    tb = tb.tb_next
                if tb is not None and os.path.dirname(os.path.abspath(tb.tb_frame.f_code.co_filename)) == _HERE:
                    # raised by simulator code (possibly deep inside a callback): a harness fault,
                    # never to be mistaken for the library rejecting an operation
                    raise HarnessError('%s in simulator code: %s' % (type(e).__name__, e)) from e
                st.outcome = 'rejected'
                st.exc = type(e).__name__
                st.exc_obj = e
        finally:
            self.stack.pop()
        if st.dest is not None:
            # observed, not assumed: did the destination still hold the very buffer it had before?
            st.extra['buffer_kept'] = self.slots[st.dest].obj.val is dest_val_ref
        if shadow is not None and st.outcome == 'ok' and 'f4_site' in st.extra and self.slots[st.dest].alive:
            try:
                st.redo(shadow, ssrc)
                st.extra['shadow'] = shadow
                self.bump('reentrant_write_repeated_without_interleaving')
            except Exception as e:
                st.extra['shadow_exc'] = type(e).__name__
        if st.outcome != 'ok':
            self.bump('outcome_' + st.outcome)
            self.bump('exc_' + st.exc)
        for o in self.oracles:
            if self.halt:
                break
            o.after(self, st)
        # an aborted or rejected in-place operation leaves its destination in a state no
        # property describes: abandon it (DESIGN 3.4 F2/F3)
        if st.outcome != 'ok' and st.dest is not None and not st.expect_reject:
            fmt_in_flight = st.op['op'] in ('resize', 'sort_inplace', 'store_cont') or st.store is None
            if st.op['op'] == 'resize' and self.performed_before_abort(st):
                # the object's own callback raised from on_status_inaccuracy / on_value_change, i.e.
                # AFTER the store: the conversion has been performed (the notification says so), the
                # object holds the converted value in the new format and stays in play
                fmt_in_flight = False
                self.bump('aborted_after_store_kept')
            elif st.op['op'] == 'resize' and self.keep_aborted_resize and st.outcome == 'aborted':
                fmt_in_flight = False
                self.slots[st.dest].source_only = True
                self.bump('aborted_before_store_kept_as_is')
            if self.strict_abandon or fmt_in_flight:
                if self.slots[st.dest].alive:
                    self.kill(st.dest)
                    self.bump('abandoned_dest')
                self.slots[st.dest].tainted = True
                self.caller_forgets(self.slots[st.dest].obj)
            else:
                # a failed value write leaves the format alone and the codes either old or new, both
                # well-formed: outside the aliasing profile the object stays in play, and its next
                # write is judged from the flags it is observed to have now (DESIGN 5.2, F3)
                self.bump('failed_write_dest_kept')
                if st.kind != 'indexed' and self.slots[st.dest].obj.val is not dest_val_ref:
                    # (observed, not assumed: a write rejected before its store leaves the old buffer -
                    #  and whatever views alias it - in place)
                    self.fresh_buffer(st.dest)
        self.log.append(self.log_entry(st))
        return st

    @staticmethod
    def performed_before_abort(st):
        """True iff this step was aborted by ITS OWN destination's callback at a site that is
        notified after the store (fault F3 at on_status_inaccuracy / on_value_change)."""
        return (st.outcome == 'aborted' and not st.nested and st.dest is not None and
                st.extra.get('f3_slot') == st.dest and
                st.extra.get('f3_site') in ('on_status_inaccuracy', 'on_value_change'))

    def log_entry(self, st):
        touched = sorted(set([i for i in ([st.dest] if st.dest is not None else [])] + list(st.new)
                             + ([st.ret_slot] if st.ret_slot is not None else [])))
        post = []
        for i in touched:
            s = self.slots[i]
            if s.alive:
                o = s.obj
                post.append((i, o.signed, o.n_word, o.n_frac, codes_of(o)[2],
                             tuple(sorted(o.status.items())) if isinstance(o.status, dict) else None))
        return (st.seq, st.depth, st.op['op'], st.outcome, st.exc, tuple(post),
                tuple(st.cb_events), len(self.live()))

    def violation(self, prop, clause, st, detail, culprit=None):
        self.violations.append({
            'property': prop, 'clause': clause, 'step': st.seq, 'depth': st.depth,
            'culprit': culprit or st.op['op'], 'op': st.op, 'detail': detail})
        self.halt = True

    # ------------------------------------------------------------------ helpers for ops
    def obj(self, i):
        return self.slots[i].obj

    def make_cbs(self, n, sites=None):
        out = []
        for j in range(n):
            ss = sites[j % len(sites)] if sites else None
            derived = bool(ss) and 'derived' in ss
            c = (SimCallbackDerived if derived else SimCallback)(self.new_cid())
            c.set_sites([x for x in ss if x in SITES_ALL] or SITES_ALL if ss else SITES_ALL)
            if ss:
                self.bump('callback_derived_from_library_base' if derived else 'callback_with_partial_handlers')
            self.all_cbs.append(c)
            out.append(c)
        return out

    def cb_sites(self, cid):
        for c in self.all_cbs:
            if c.cid == cid:
                return c.sites
        return SITES_ALL

    def fmt_args(self, fmt):
        if fmt is None:
            return None, None, None
        s, w, f = fmt
        return (None if s is None else bool(s)), w, f

    @staticmethod
    def with_n_int(rs, w, f, ni):
        """Documented meaning of n_int given with exactly one other size: the third follows
        arithmetically, counting the sign bit of the REQUESTED signedness."""
        if ni is not None:
            if w is None and f is not None:
                w = ni + f + (1 if rs else 0)
            elif f is None and w is not None:
                f = w - ni - (1 if rs else 0)
        return w, f

    def room(self):
        if len(self.live()) >= MAX_SLOTS:
            raise Skip('world full')

    def finish_new(self, st, obj, token=None, pos=None, origin='new'):
        """Register the object a derive/construct op returned."""
        st.ret = obj
        if not isinstance(obj, Fxp):
            st.extra['non_fxp_ret'] = type(obj).__name__
            return None
        k = self.slot_of(obj)
        if k is not None:
            st.ret_slot = k
            return k
        k = self.add_slot(obj, token, pos, origin)
        st.new.append(k)
        st.ret_slot = k
        return k

    def plan_register(self, st, reg_obj):
        """The op's result must land in `reg_obj` (an Fxp register) if not None."""
        if reg_obj is None:
            st.pure = True
            return None
        k = self.slot_of(reg_obj)
        if k is None and self.slot_any(reg_obj) is not None:
            k = self.slot_any(reg_obj)
            if self.slots[k].tainted:
                raise Skip('abandoned register')
            self.slots[k].alive = True
        if k is None:
            if len(self.live()) >= MAX_SLOTS:
                raise Skip('register not tracked')
            k = self.add_slot(reg_obj, origin='register-copy')
        if k in self.inflight():
            raise Skip('register in flight')
        st.dest = k
        st.reg_expected = k
        st.wset = {k}
        st.extra['reg_val_before'] = reg_obj.val
        self.bump('register_write')
        return k

    def register_written(self, st):
        """After a register-writing step: the register received a new buffer iff the library really
        stored into it (which register an operator uses is C08's subject, not modelled here; whether
        its `val` attribute was rebound is observed, not what the buffers alias)."""
        if st.dest is not None and 'reg_val_before' in st.extra and self.slots[st.dest].alive:
            if self.slots[st.dest].obj.val is not st.extra['reg_val_before']:
                self.fresh_buffer(st.dest)

    def plan_indexed(self, st, d, index):
        """Write set and write-through map of an indexed write on slot d."""
        s = self.slots[d]
        try:
            region = s.pos[index]
        except Exception:
            region = None
        st.index = index
        st.dest = d
        if region is None:
            # the index is invalid for this shape: the library must reject it
            st.wset = set(self.group(d))
            st.wthrough = None
            return
        affected = set(np.asarray(region).ravel().tolist())
        st.extra['affected'] = affected
        ws = {d}
        for j in self.group(d):
            if j != d and affected & set(self.slots[j].pos.ravel().tolist()):
                ws.add(j)
        st.wset = ws
        st.wthrough = affected

    # ================================================================== ops: construct
    def op_new(self, st):
        op = st.op
        self.room()
        s, w, f = self.fmt_args(op.get('fmt'))
        kw = dict(op.get('kw') or {})
        val = op.get('val')
        raw = bool(op.get('raw'))
        ncb = int(op.get('ncb') or 0)
        st.kind = 'construct'
        st.pure = True
        cfg_slot = None
        if op.get('cfg_slot') is not None and not (op.get('cfg') is not None and self.configs):
            cfg_slot = self.ref(op['cfg_slot'])
            st.srcs = [cfg_slot]
        busy = [self.slots[i].obj for i in self.inflight()]
        if busy:
            # inside a callback: a Config (the caller's, or the global template) whose registers
            # lead to the object being written would make the constructor deep-copy it half-written
            cfgs = []
            if op.get('cfg') is not None and self.configs:
                cfgs.append(self.configs[op['cfg'] % len(self.configs)])
            if self.cfg_template is not None:
                cfgs.append(self.configs[self.cfg_template])
            for c in cfgs:
                for rf in REG_FIELDS:
                    r = getattr(c, '_' + rf, None)
                    if isinstance(r, Fxp) and any(self.reg_reaches(r, b) for b in busy):
                        raise Skip('config register in flight')
        tpl = self.template
        vals = None
        if val is not None and not (tpl is not None and (w is None or f is None)):
            pass
        ni = op.get('n_int') if op.get('dtype') is None else None
        req = (s, w, f)
        if ni is not None:
            if tpl is not None:
                raise Skip('n_int under a class template')
            w2, f2 = self.with_n_int(True if s is None else s, w, f, ni)
            req = (True if s is None else s, w2, f2)
        st.store = Store('new', vals=None, raw=raw, route='ctor', kw_modes=kw,
                         fmt_req=req, judge_cb=False)
        st.extra['val'] = val
        st.extra['tpl'] = tpl
        st.extra['cfg_tpl'] = self.cfg_template
        yield
        cbs = self.make_cbs(ncb, op.get('cb_sites'))
        args = {}
        if raw:
            args['raw'] = True
        if ncb:
            args['callbacks'] = cbs
        if op.get('cfg') is not None and self.configs and op.get('cfg_as_template'):
            # an unusual but accepted argument: a Config object given as `template=` (the pinned code takes
            # templates from Fxp objects only and ignores it: the new object gets the defaults and keywords)
            args['template'] = self.configs[op['cfg'] % len(self.configs)]
            self.bump('config_object_given_as_template')
        elif op.get('cfg') is not None and self.configs:
            args['config'] = self.configs[op['cfg'] % len(self.configs)]
            st.extra['cfg'] = op['cfg'] % len(self.configs)
            self.bump('caller_config_used')
        elif op.get('cfg_slot') is not None:
            # the Config of a live object handed to the constructor (config=a.config)
            args['config'] = self.obj(cfg_slot).config
            st.extra['cfg'] = -1
            self.bump('object_config_used')
        self.pending_owner = cbs
        if op.get('ctor_write') is not None and cbs:
            # fault F8 at construction time: the first callback given with callbacks= writes a value into the
            # object the first time it is notified - i.e. from inside the constructor's own sizing store
            cbs[0].armed['on_value_change'] = {'ctor_write': op['ctor_write']}
        try:
            if op.get('dtype') is not None:
                x = Fxp(None if val is None else V.carrier(val), dtype=op['dtype'], **args, **kw)
            elif ni is not None:
                x = Fxp(None if val is None else V.carrier(val), s, w, f, n_int=ni, **args, **kw)
            else:
                x = Fxp(None if val is None else V.carrier(val), s, w, f, **args, **kw)
        finally:
            self.pending_owner = []
        for c in cbs:
            c.owner = x
        self.finish_new(st, x)

    def op_new_from(self, st):
        op = st.op
        self.room()
        src = self.ref(op['src'])
        s, w, f = self.fmt_args(op.get('fmt'))
        kw = dict(op.get('kw') or {})
        st.kind = 'construct'
        st.pure = True
        st.srcs = [src]
        ni = op.get('n_int') if op.get('dtype') is None else None
        req = (s, w, f)
        if ni is not None:
            if self.template is not None:
                raise Skip('n_int under a class template')     # (sizes then go through the template's resize)
            rs = True if s is None else s                       # the constructor's default signedness
            w2, f2 = self.with_n_int(rs, w, f, ni)
            req = (rs, w2, f2)
        st.store = Store('new', src=src, route='ctor_from', kw_modes=kw, fmt_req=req,
                         judge_cb=False)
        st.extra['tpl'] = self.template
        yield
        if op.get('dtype') is not None:
            x = Fxp(self.obj(src), dtype=op['dtype'], **kw)
        elif ni is not None:
            x = Fxp(self.obj(src), s, w, f, n_int=ni, **kw)
        else:
            x = Fxp(self.obj(src), s, w, f, **kw)
        self.finish_new(st, x)

    def op_new_like(self, st):
        op = st.op
        self.room()
        like = self.ref(op['like'])
        srcd = op.get('src')
        src = None
        val = None
        if srcd is not None and 'slot' in srcd:
            src = self.ref(srcd['slot'])
        elif srcd is not None:
            val = srcd['val']
        fmt = op.get('fmt')
        s, w, f = self.fmt_args(fmt)
        st.kind = 'construct'
        st.pure = True
        st.srcs = [like] + ([src] if src is not None else [])
        lo = self.obj(like)
        ni = op.get('n_int')
        rs = bool(lo.signed) if s is None else s
        w2, f2 = self.with_n_int(rs, w, f, ni)
        req = (rs, lo.n_word if w2 is None else w2, lo.n_frac if f2 is None else f2)
        st.store = Store('new', src=src, route='like_kw', modes_from=('slot', like), fmt_req=req,
                         judge_cb=False)
        st.extra['val'] = val
        st.extra['like'] = like
        yield
        a = self.obj(src) if src is not None else (None if val is None else V.carrier(val))
        if ni is not None:
            x = Fxp(a, s, w, f, n_int=ni, like=lo)
        else:
            x = Fxp(a, s, w, f, like=lo)
        self.finish_new(st, x)

    def op_new_tplkw(self, st):
        op = st.op
        self.room()
        tpl = self.ref(op['tpl'])
        val = op.get('val')
        st.kind = 'construct'
        st.pure = True
        st.srcs = [tpl]
        to = self.obj(tpl)
        st.store = Store('new', route='tpl_kw', modes_from=('slot', tpl),
                         fmt_req=(to.signed, to.n_word, to.n_frac), judge_cb=False)
        st.extra['val'] = val
        st.extra['like'] = tpl
        yield
        x = Fxp(None if val is None else V.carrier(val), template=to)
        self.finish_new(st, x)

    def op_new_cont(self, st):
        op = st.op
        self.room()
        if not self.containers:
            raise Skip('no container')
        c = op['c'] % len(self.containers)
        s, w, f = self.fmt_args(op.get('fmt'))
        kw = dict(op.get('kw') or {})
        st.kind = 'construct'
        st.pure = True
        st.extra['container'] = c
        st.extra['tpl'] = self.template
        st.store = Store('new', route='ctor_container', kw_modes=kw, fmt_req=(s, w, f),
                         judge_cb=False, judge_flags=False)
        yield
        self.bump('container_used')
        x = Fxp(self.containers[c][0], s, w, f, **kw)
        self.finish_new(st, x)

    def op_store_cont(self, st):
        """Write a caller-owned container into an existing object (call / set_val / raw / indexed)."""
        op = st.op
        if not self.containers:
            raise Skip('no container')
        c = op['c'] % len(self.containers)
        via = op.get('via', 'call')
        if via == 'setitem':
            d = self.ref(op['slot'], lambda o: np.asarray(o.val).ndim > 0)
            index = decode_index(op['index'])
            st.kind = 'indexed'
            self.plan_indexed(st, d, index)
        else:
            d = self.ref(op['slot'])
            self._plan_inplace(st, d)
        st.extra['container'] = c
        st.store = Store('dest', route='store_container', judge_flags=False, judge_cb=False)
        yield
        self.bump('container_used')
        cont = self.containers[c][0]
        o = self.obj(d)
        if via == 'setitem':
            o[index] = cont
        elif via == 'raw':
            o.set_val(cont, raw=True)
            self.fresh_buffer(d)
        elif via == 'set_val':
            o.set_val(cont)
            self.fresh_buffer(d)
        else:
            o(cont)
            self.fresh_buffer(d)

    def op_frombin_fn(self, st):
        op = st.op
        self.room()
        s, w, f = self.fmt_args(op.get('fmt'))
        st.kind = 'construct'
        st.pure = True
        st.store = Store('new', route='from_bin_fn', fmt_req=(s, w, f), judge_cb=False,
                         judge_flags=False)
        st.extra['tpl'] = self.template
        yield
        x = fxf.from_bin(op['bits'], signed=s, n_word=w, n_frac=f)
        self.finish_new(st, x)

    def op_frombin_cont(self, st):
        """from_bin() given a caller-owned CONTAINER of binary literals (a list, or a NumPy array of dtype
        object or str): the function form builds a new object, the method form rewrites an existing one.
        Either way the container comes back unchanged (C20)."""
        op = st.op
        if not self.containers:
            raise Skip('no container')
        c = op['c'] % len(self.containers)
        cont = self.containers[c][0]
        ok = (isinstance(cont, np.ndarray) and cont.dtype.kind in 'OU') or \
            (isinstance(cont, (list, tuple)) and not V.is_numeric_container(cont))
        if not ok:
            raise Skip('not a container of literals')
        st.extra['container'] = c
        if op.get('via') == 'method':
            d = self.ref(op['slot'])
            self._plan_inplace(st, d)
            st.store = Store('dest', route='from_bin', judge_flags=False, judge_cb=False)
            yield
            self.bump('from_bin_of_container')
            st.ret = self.obj(d).from_bin(cont)
            self.fresh_buffer(d)
        else:
            self.room()
            s, w, f = self.fmt_args(op.get('fmt'))
            st.kind = 'construct'
            st.pure = True
            st.store = Store('new', route='from_bin_fn', fmt_req=(s, w, f), judge_cb=False, judge_flags=False)
            st.extra['tpl'] = self.template
            yield
            self.bump('from_bin_of_container')
            x = fxf.from_bin(cont, signed=s, n_word=w, n_frac=f)
            self.finish_new(st, x)

    # ================================================================== ops: derive
    def op_deepcopy(self, st):
        op = st.op
        self.room()
        a = self.ref(op['slot'])
        st.kind = 'derive'
        st.pure = True
        st.srcs = [a]
        yield
        if op.get('via') == 'copy':
            x = copy.deepcopy(self.obj(a))
        else:
            x = self.obj(a).deepcopy()
        self.finish_new(st, x, origin='deepcopy')

    def op_big_write(self, st):
        """One write of a LARGE array (tens of thousands of elements, out-of-range ones far apart) into a
        throw-away object with one recording callback: however the library walks through the data, the
        write is one write - each condition is notified once.  The object is not kept (snapshots of
        such arrays after every step would cost more than they tell)."""
        op = st.op
        st.kind = 'construct'
        st.pure = True
        if self.template is not None or self.cfg_template is not None:
            raise Skip('a global template would shape the throw-away object')
        yield
        n = int(op.get('n', 70000))
        s_, nw, nf = op['fmt']
        lo, hi = Q.bounds(bool(s_), nw)
        cb = self.make_cbs(1)[0]
        x = Fxp(np.zeros(n), bool(s_), nw, nf, overflow=op.get('overflow', 'saturate'), callbacks=[cb])
        cb.owner = x
        arr = np.zeros(n)
        expect = {'on_status_overflow': 0, 'on_status_underflow': 0, 'on_status_inaccuracy': 0, 'on_value_change': 1}
        for pos in op.get('over', []):
            arr[pos % n] = float(Q.unscale(hi + 3, nf))
            expect['on_status_overflow'] = 1
            expect['on_status_inaccuracy'] = 1
        for pos in op.get('under', []):
            arr[pos % n] = float(Q.unscale(lo - 3, nf))
            expect['on_status_underflow'] = 1
            expect['on_status_inaccuracy'] = 1
        mark = len(st.cb_events)
        if op.get('via') == 'setitem':
            x[:] = arr
        else:
            x.set_val(arr)
        got = {}
        for (c, site, k) in st.cb_events[mark:]:
            if c == cb.cid:
                got[site] = got.get(site, 0) + 1
        st.extra['big_write'] = {'n': n, 'expected': expect, 'observed': {k_: got.get(k_, 0) for k_ in expect},
                                 'flags': {f: bool(x.status.get(f)) for f in ('overflow', 'underflow', 'inaccuracy')}}
        self.bump('big_array_write')
        st.transients.append(x)          # (C02 looks at it once: every code of the large array in range)

    def op_acc_copy(self, st):
        """An ACCUMULATOR (an object that names itself as its own result register: x.config.op_out = x)
        is copied by a route built on deep copy.  The copy's register must be the copy itself (or a
        private object), never the original.  The self-reference is set up and taken down inside this one
        step - the library's like= route builds half-made objects from such cycles, which no property
        covers - so the world never holds a cycle between steps."""
        op = st.op
        self.room()
        a = self.ref(op['slot'], lambda o: np.asarray(o.val).dtype.kind in 'iu')
        st.kind = 'derive'
        st.pure = True
        st.srcs = [a]
        field = op.get('field', 'op_out')
        if field not in REG_FIELDS:
            raise Skip('field')
        yield
        x = self.obj(a)
        old = {f: getattr(x.config, '_' + f, None) for f in REG_FIELDS}
        both = op.get('both')
        try:
            setattr(x.config, field, x)
            if both:
                setattr(x.config, both, x)       # the same register named by two fields
            how = op.get('how', 'deepcopy')
            if how == 'deepcopy':
                y = x.deepcopy()
            elif how == 'copy.deepcopy':
                y = copy.deepcopy(x)
            elif how == 'invert':
                y = ~x
            elif how == 'flatten':
                y = x.flatten() if np.asarray(x.val).ndim > 0 else x.deepcopy()
            elif how == 'like_kw':
                # (the pinned constructor builds a half-made register from such a cycle - no property
                #  covers that; all that is asked here is that the register is not the ORIGINAL)
                y = Fxp(0, like=x)
            elif how == 'like_method':
                y = Fxp(0, bool(x.signed), x.n_word, x.n_frac).like(x)
            else:
                y = fxf.fxp_like(x, 0)
            self.bump('accumulator_copied')
            if isinstance(y, Fxp):
                for f in (field, both) if both else (field,):
                    r = getattr(y.config, '_' + f, None)
                    if r is x:
                        st.extra['acc_shared'] = f
                for f in REG_FIELDS:
                    setattr(y.config, f, None)
        finally:
            for f, v in old.items():
                setattr(x.config, f, v)
        self.finish_new(st, y, origin='deepcopy')

    def op_like(self, st):
        op = st.op
        self.room()
        a = self.ref(op['slot'])
        t = self.ref(op['tpl'])
        st.kind = 'derive'
        st.pure = True
        st.srcs = [a, t]
        to = self.obj(t)
        st.store = Store('new', src=a, route='like_method', modes_from=('slot', t),
                         fmt_req=(to.signed, to.n_word, to.n_frac), judge_cb=False)
        yield
        x = self.obj(a).like(to)
        self.finish_new(st, x, origin='like')

    def op_unary(self, st):
        op = st.op
        self.room()
        a = self.ref(op['slot'])
        st.kind = 'derive'
        st.pure = True
        st.srcs = [a]
        f = op['f']
        # the store that builds the result is a write of -v / +v / |v| into the operand's format
        av = self.exact_of_slot(a) if (self.template is None and self.cfg_template is None
                                       and not self.obj(a).scaled) else None
        vals = None
        if av is not None:
            vals = (av[0], [(-v if f == 'neg' else abs(v) if f == 'abs' else v) for v in av[1]])
        # -x, +x and abs(x) are arithmetic (Python's "unary arithmetic operations"): like every other
        # arithmetic result they carry the inaccuracy flag of their operand (C04, last clause)
        st.store = Store('new', vals=vals, route='arith', judge_cb=False, arith=f, prop=[a])
        st.extra['arith_route'] = 'unary'
        yield
        o = self.obj(a)
        x = -o if f == 'neg' else +o if f == 'pos' else abs(o)
        self.finish_new(st, x, origin=f)

    def _arith_exact(self, f, av, bv):
        """Exact elementwise result of + - * with NumPy broadcasting, or None."""
        (sa, fa), (sb, fb) = av, bv
        try:
            A = np.empty(len(fa), dtype=object)
            A[:] = fa
            A = A.reshape(sa)
            B = np.empty(len(fb), dtype=object)
            B[:] = fb
            B = B.reshape(sb)
            R = A + B if f == 'add' else A - B if f == 'sub' else A * B
        except Exception:
            return None
        R = np.asarray(R, dtype=object)
        return tuple(R.shape), R.ravel().tolist()

    def exact_of_slot(self, i, readback=False):
        o = self.obj(i)
        sh, kind, flat = codes_of(o)
        if kind not in 'iuO' or not all(isinstance(c, int) for c in flat):
            return None
        vals = [Q.unscale(c, o.n_frac) for c in flat]
        if readback:
            # arithmetic by the repr method works on get_val(); an operand whose read-back value is
            # not its exact value (stale integer value type flooring it: C16's subject) would make
            # the library compute with other numbers than the model
            try:
                gv = np.asarray(o.get_val())
                if gv.dtype.kind == 'u':
                    # read back as unsigned machine integers: the repr method would subtract them
                    # modulo 2**64 (C07/C19's subject), and under wrap the stored code cannot tell
                    return None
                got = np.asarray(gv, dtype=float).ravel().tolist()
                if len(got) != len(vals) or any(Fraction(g) != v for g, v in zip(got, vals)):
                    return None
            except Exception:
                return None
        return sh, vals

    def op_arith(self, st):
        op = st.op
        self.room()
        f = op['f']
        if f == 'pow':
            # the library itself warns of "long execution times and huge memory usage" when the
            # exponent gets fraction bits: small words, small integer exponents, and no global
            # template (which would shape the constant exponent) only
            if self.template is not None or self.cfg_template is not None:
                raise Skip('pow under a global template')
            a = self.ref(op['a'], lambda o: o.n_word <= 16 and np.asarray(o.val).dtype.kind in 'iu')
            bv_ = op['b'].get('val')
            ok_ = bv_ is not None and (
                (bv_[0] == 'i' and 0 <= bv_[1] <= 3) or
                (bv_[0] in ('l', 't') and 0 < len(bv_[1]) <= 4 and all(e[0] == 'i' and 0 <= e[1] <= 3 for e in bv_[1])) or
                (bv_[0] == 'a' and bv_[1] == 'int64' and len(bv_[2]) == 1 and 0 < len(bv_[3]) <= 4 and
                 all(e[1] == 0 and 0 <= e[0] <= 3 for e in bv_[3])))
            if not ok_:
                raise Skip('pow exponent')
        else:
            a = self.ref(op['a'])
        bd = op['b']
        route = op.get('route', 'op')
        b = None
        st.kind = 'derive'
        ao = self.obj(a)
        if 'slot' in bd:
            b = self.ref(bd['slot'])
            if route == 'rop':
                route = 'op'
            bo = self.obj(b)
            st.srcs = [a, b]
        else:
            bo = None
            st.srcs = [a]
        cont = None
        if 'cont' in bd:
            # the other operand is a caller-owned array / list (an input like any other: C20)
            if not self.containers:
                raise Skip('no container')
            ci = bd['cont'] % len(self.containers)
            cont = self.containers[ci][0]
            if not V.is_numeric_container(cont):
                raise Skip('container is not numeric')
            st.extra['container'] = ci
        if cont is not None and route == 'rop' and isinstance(cont, np.ndarray):
            # ndarray OP fxp is dispatched by NumPy (__array_ufunc__), not by the reflected operator:
            # it is the NumPy route, with that route's result register
            route = 'np'
            st.extra['ndarray_left_operand'] = True
        reg = None
        out_like = None
        kwargs = {}
        if route in ('op', 'rop'):
            reg = ao.config.op_out
            out_like = ao.config.op_out_like
        elif route == 'fn':
            if op.get('out') is not None:
                reg = self.obj(self.ref(op['out']))
                kwargs['out'] = reg
            elif op.get('out_like') is not None:
                out_like = self.obj(self.ref(op['out_like']))
                kwargs['out_like'] = out_like
            if op.get('sizing'):
                kwargs['sizing'] = op['sizing']
            if op.get('method'):
                kwargs['method'] = op['method']
        elif route == 'np':
            reg = ao.config.array_op_out
            if op.get('out') is not None and reg is None:
                reg = self.obj(self.ref(op['out']))     # np.add(a, b, out=reg)
                kwargs['out'] = reg
        else:
            raise HarnessError('route')
        if reg is not None and (reg is ao or (bo is not None and reg is bo)):
            # result register is also an operand: legal, the operand is the destination
            pass
        self.plan_register(st, reg)
        exact = None
        if f in ('add', 'sub', 'mul') and not ao.scaled and cont is None:
            av = self.exact_of_slot(a, readback=True)
            if b is not None:
                bv = self.exact_of_slot(b, readback=True) if not bo.scaled else None
            elif bd['val'][0] == 'x':
                bv = None         # (fault F2: a constant the library cannot convert - the operation is rejected)
            elif bd['val'][0] == 'n' and bd['val'][1] in ('float32', 'float16', 'longdouble'):
                # the format INFERRED for a constant of a narrow float type follows that type's precision
                # (np.float32 -> at most 24 bits) and need not hold the value exactly - size inference is
                # C06's subject; the constant may legitimately carry the inaccuracy flag (seen: VERIF_SEED=1109)
                bv = None
            else:
                bv = V.exact(bd['val'])
            const_inexact = False
            if av is not None and bv is not None and b is None:
                # constant operand: the library first turns it into a fixed-point constant, by
                # config.op_input_size: 'same' -> quantized into a's own format under a's modes
                # (Fxp(c, like=a)); 'best' (and the function / NumPy routes) -> inferred format, which
                # holds a modest dyadic constant exactly
                mode = ao.config.op_input_size if route in ('op', 'rop') else 'best'
                ok = all(abs(v.numerator).bit_length() <= 48 and v.denominator.bit_length() <= 30
                         for v in bv[1])
                if mode == 'same' and ao.n_word <= 52:
                    fmt = (bool(ao.signed), ao.n_word, ao.n_frac)
                    q = [Q.quant(v, fmt, ao.config.rounding, ao.config.overflow)[0] for v in bv[1]]
                    qv = [Q.unscale(c, ao.n_frac) for c in q]
                    const_inexact = any(x != y for x, y in zip(qv, bv[1]))
                    bv = (bv[0], qv)
                elif not (mode == 'best' and ok) or self.template is not None or self.cfg_template is not None:
                    bv = None     # (under a global template Fxp(c) is shaped by the template instead)
            if av is not None and bv is not None:
                x, y = (bv, av) if ((route == 'rop' or (route == 'fn' and op.get('swap'))) and b is None) else (av, bv)
                exact = self._arith_exact(f, x, y)
            st.extra['const_inexact'] = const_inexact
        prop = [a] + ([b] if b is not None else [])
        st.store = Store('dest' if st.dest is not None else 'new', vals=exact, route='arith',
                         prop=prop, judge_cb=(st.dest is not None), arith=f)
        st.extra['arith_route'] = route
        # NumPy route with array_op_out_like: the ordinary result is built first and then converted
        # into an object like the template (two stores, the second has the first as its input)
        st.extra['np_two_stage'] = route == 'np' and ao.config.array_op_out_like is not None
        yield
        ao = self.obj(a)
        bv = self.obj(b) if b is not None else cont if cont is not None else V.carrier(bd['val'])
        if cont is not None:
            self.bump('arith_operand_from_container')
        if route == 'op':
            x = (ao + bv if f == 'add' else ao - bv if f == 'sub' else ao * bv if f == 'mul' else
                 ao / bv if f == 'truediv' else ao // bv if f == 'floordiv' else ao ** bv if f == 'pow'
                 else ao % bv)
        elif route == 'rop':
            x = (bv + ao if f == 'add' else bv - ao if f == 'sub' else bv * ao if f == 'mul' else
                 bv / ao if f == 'truediv' else bv // ao if f == 'floordiv' else bv ** ao if f == 'pow'
                 else bv % ao)
        elif route == 'fn':
            if op.get('swap') and b is None:
                # the free function with the non-Fxp operand FIRST: fxpmath.sub(3, x), fxpmath.add([1, 2], x)
                self.bump('arith_function_nonfxp_first')
                x = getattr(fxf, f)(bv, ao, **kwargs)
            else:
                x = getattr(fxf, f)(ao, bv, **kwargs)
        elif st.extra.get('ndarray_left_operand'):
            x = (bv + ao if f == 'add' else bv - ao if f == 'sub' else bv * ao if f == 'mul' else
                 bv / ao if f == 'truediv' else bv // ao if f == 'floordiv' else bv ** ao if f == 'pow'
                 else bv % ao)
        else:
            npf = {'add': np.add, 'sub': np.subtract, 'mul': np.multiply, 'truediv': np.true_divide,
                   'floordiv': np.floor_divide, 'mod': np.mod, 'pow': np.power}[f]
            x = npf(ao, bv, **kwargs)
        k = self.finish_new(st, x, origin='arith')
        self.register_written(st)

    def op_bitwise(self, st):
        op = st.op
        self.room()
        a = self.ref(op['a'])
        f = op['f']
        st.kind = 'derive'
        st.pure = True
        st.srcs = [a]
        b = None
        bd = op.get('b')
        if f != 'invert' and 'slot' in bd:
            b = self.ref(bd['slot'])
            st.srcs.append(b)
        if f != 'invert' and b is None and 'val' in bd and op.get('reflected') and bd['val'][0] in ('n', 'a'):
            # <NumPy integer> OP fxp is dispatched by NumPy (np.bitwise_xor through __array_ufunc__), not
            # by the reflected operator: the NumPy route, with that route's result register
            if self.plan_register(st, self.obj(a).config.array_op_out) is not None:
                st.pure = False
            st.extra['numpy_left_operand'] = True
        yield
        ao = self.obj(a)
        if f == 'invert':
            x = ~ao
        else:
            bv = self.obj(b) if b is not None else int(bd['int']) if 'int' in bd else V.carrier(bd['val'])
            if b is None and 'val' in bd:
                self.bump('bitwise_typed_constant')
            refl = bool(op.get('reflected')) and b is None
            if f == 'and':
                x = (bv & ao) if refl else (ao & bv)
            elif f == 'or':
                x = (bv | ao) if refl else (ao | bv)
            else:
                x = (bv ^ ao) if refl else (ao ^ bv)
        self.finish_new(st, x, origin='bitwise')
        self.register_written(st)

    def op_shift(self, st):
        op = st.op
        self.room()
        a = self.ref(op['slot'])
        st.kind = 'derive'
        st.pure = True
        st.srcs = [a]
        yield
        ao = self.obj(a)
        n = int(op['n'])
        x = (ao << n) if op['dir'] == 'l' else (ao >> n)
        self.finish_new(st, x, origin='shift')

    def op_getitem(self, st):
        op = st.op
        self.room()
        a = self.ref(op['slot'], lambda o: isinstance(o.val, np.ndarray))
        index = decode_index(op['index'])
        st.kind = 'derive'
        st.pure = True
        st.srcs = [a]
        s = self.slots[a]
        try:
            region = s.pos[index]
        except Exception:
            region = None
        st.extra['getitem_region'] = region
        adv = index_is_advanced(op['index'])
        yield
        x = self.obj(a)[index]
        if adv:
            self.bump('getitem_advanced_index')
            if not same_index(index, decode_index(op['index'])):
                st.extra['index_mutated'] = repr(index)
        # NumPy's own rule, asked of the model's position array (never of the object under test):
        # basic indexes give views, advanced ones (lists, integer arrays, masks) give copies
        if region is not None and isinstance(region, np.ndarray) and (not adv or np.shares_memory(region, s.pos)):
            self.finish_new(st, x, token=s.token, pos=region, origin='view')
            self.bump('view_created')
            if s.origin == 'view':
                self.bump('view_of_view')
        else:
            self.finish_new(st, x, origin='element')

    def op_iterate(self, st):
        """Elements obtained by ITERATING over an array object (for e in x, list(x), iter / next): each is
        what x[i] is - a view of the values with a configuration and a status record of its own."""
        op = st.op
        self.room()
        a = self.ref(op['slot'], lambda o: isinstance(o.val, np.ndarray) and o.val.ndim > 0 and o.val.shape[0] > 0)
        st.kind = 'derive'
        st.pure = True
        st.srcs = [a]
        s = self.slots[a]
        n = int(s.pos.shape[0])
        free = MAX_SLOTS - len(self.live())
        keep = sorted(set(int(i) % n for i in op['keep']))[:max(1, free)]
        yield
        o = self.obj(a)
        how = op['how']
        if how == 'list':
            elems = list(o)
        elif how == 'for':
            elems = []
            for e in o:
                elems.append(e)
        else:
            it = iter(o)
            elems = []
            for _ in range(max(keep) + 1):
                elems.append(next(it))
        if how != 'next' and len(elems) != n:
            st.extra['iter_len'] = (len(elems), n)
        self.bump('iterated_' + how)
        for i in keep:
            if i >= len(elems):
                continue
            region = s.pos[i]
            if isinstance(region, np.ndarray):
                self.finish_new(st, elems[i], token=s.token, pos=region, origin='view')
                self.bump('view_created')
            else:
                self.finish_new(st, elems[i], origin='element')
        if len(st.new) > 1:
            self.bump('iterated_siblings_kept')

    def op_reduce(self, st):
        op = st.op
        self.room()
        f = op['f']
        a = self.ref(op['a'], lambda o: np.asarray(o.val).ndim > 0)
        route = op.get('route', 'method')
        ao = self.obj(a)
        st.kind = 'derive'
        st.srcs = [a]
        b = None
        if f == 'dot':
            b = self.ref(op['b'], lambda o: np.asarray(o.val).ndim > 0)
            st.srcs.append(b)
        kwargs = {}
        mkw = {}       # keywords handed to the METHOD form (x.sum(out=r), x.max(out_like=t, sizing='same'))
        reg = None
        if route == 'method':
            reg = ao.config.op_out
            if op.get('kw_on_method'):
                if op.get('out') is not None:
                    reg = self.obj(self.ref(op['out']))
                    mkw['out'] = reg
                elif op.get('out_like') is not None:
                    mkw['out_like'] = self.obj(self.ref(op['out_like']))     # (config.op_out, if set, still wins)
                if op.get('sizing'):
                    mkw['sizing'] = op['sizing']
                if op.get('method'):
                    mkw['method'] = op['method']
                self.bump('reduce_method_with_keywords')
        elif route == 'np':
            reg = ao.config.array_op_out
        else:
            if op.get('out') is not None:
                reg = self.obj(self.ref(op['out']))
                kwargs['out'] = reg
            elif op.get('out_like') is not None:
                kwargs['out_like'] = self.obj(self.ref(op['out_like']))
            if op.get('sizing'):
                kwargs['sizing'] = op['sizing']
            if op.get('method'):
                kwargs['method'] = op['method']
        if f == 'sort' and route == 'method':
            raise Skip('in-place sort is op_sort_inplace')
        self.plan_register(st, reg)
        prop = [a] + ([b] if b is not None else [])
        axis = op.get('axis')
        # exact value of the reduction on the operand's stored values (the store that creates the
        # result is a write like any other: its flags are judged against this, under the same
        # guards as arithmetic - single-stage route, operand reads back exactly, stored code is the
        # exact quantization)
        exact = None
        two_stage = route == 'np' and (ao.config.array_op_out is not None or
                                       ao.config.array_op_out_like is not None)
        if f in ('sum', 'cumsum', 'prod', 'cumprod', 'max', 'min', 'sort', 'transpose', 'diagonal', 'trace') \
                and not ao.scaled and not two_stage and self.template is None and self.cfg_template is None:
            av = self.exact_of_slot(a, readback=True)
            if av is not None:
                try:
                    A = np.empty(len(av[1]), dtype=object)
                    A[:] = av[1]
                    A = A.reshape(av[0])
                    if f in ('sum', 'cumsum', 'prod', 'cumprod', 'max', 'min'):
                        R = getattr(np, f)(A, axis=axis)
                    elif f == 'sort':
                        R = np.sort(A, axis=-1 if axis is None else axis)
                    else:
                        R = getattr(np, f)(A)
                    R = np.asarray(R, dtype=object)
                    exact = (tuple(R.shape), R.ravel().tolist())
                except Exception:
                    exact = None
        extra_kw = {}
        if f in ('max', 'min') and op.get('initial') is not None:
            # NumPy's `initial=` keyword of the reductions, forwarded by the library (it is compared with
            # the raw codes): what the result is worth is not modelled, only that it is well-formed
            extra_kw['initial'] = int(op['initial'])
            exact = None
            self.bump('reduce_with_initial')
        st.store = Store('dest' if st.dest is not None else 'new', vals=exact, route='reduce',
                         prop=prop, judge_cb=False, arith=f, judge_flags=exact is not None)
        st.extra['arith_route'] = route
        st.extra['np_two_stage'] = two_stage
        yield
        ao = self.obj(a)
        npf = {'sum': np.sum, 'cumsum': np.cumsum, 'prod': np.prod, 'cumprod': np.cumprod,
               'max': np.max, 'min': np.min, 'sort': np.sort, 'transpose': np.transpose,
               'diagonal': np.diagonal, 'trace': np.trace, 'clip': np.clip, 'dot': np.dot}[f]
        if f == 'dot':
            bo = self.obj(b)
            x = ao.dot(bo, **mkw) if route == 'method' else np.dot(ao, bo) if route == 'np' else fxf.dot(ao, bo, **kwargs)
        elif f == 'clip':
            lo_, hi_ = op.get('lo', 0), op.get('hi', 1)
            # bounds handed over as caller-owned arrays / lists: inputs like any other (C20)
            for key in ('lo_c', 'hi_c'):
                if op.get(key) is not None and self.containers:
                    cobj = self.containers[op[key] % len(self.containers)][0]
                    # (list bounds only for small fractions: the defect fixed by 5db21e9 repeated the
                    #  list 2**n_frac times, and a tree that brings it back must not eat the machine)
                    if V.is_numeric_container(cobj) and (isinstance(cobj, np.ndarray) or ao.n_frac <= 10):
                        self.bump('clip_bound_from_container')
                        if key == 'lo_c':
                            lo_ = cobj
                        else:
                            hi_ = cobj
            x = (ao.clip(lo_, hi_, **mkw) if route == 'method' else np.clip(ao, lo_, hi_) if route == 'np'
                 else fxf.clip(ao, lo_, hi_, **kwargs))
        elif f in ('transpose', 'diagonal', 'trace'):
            x = (getattr(ao, f)(**mkw) if route == 'method' else npf(ao) if route == 'np'
                 else getattr(fxf, f)(ao, **kwargs))
        else:
            fname = {'max': 'fxp_max', 'min': 'fxp_min'}.get(f, f)
            if route == 'method':
                x = getattr(ao, f)(axis=axis, **dict(mkw, **extra_kw))
            elif route == 'np':
                x = npf(ao, axis=axis, **extra_kw)
            elif f == 'sum' and op.get('legacy'):
                # the older public spelling of the same reduction: fxp_sum(x, sizes=, axis=, dtype=, out=)
                kw2 = {}
                if 'out' in kwargs:
                    kw2['out'] = kwargs['out']
                elif op.get('legacy') == 'dtype':
                    kw2['dtype'] = 'fxp-%s%d/%d' % ('s' if ao.signed else 'u', min(ao.n_word + 4, 60), ao.n_frac)
                else:
                    kw2['sizes'] = {'same': 'same_sizes', 'fit': 'tight_sizes'}.get(kwargs.get('sizing'), 'best_sizes')
                self.bump('reduce_fxp_sum')
                x = fxf.fxp_sum(ao, axis=axis, **kw2)
            else:
                x = getattr(fxf, fname)(ao, axis=axis, **dict(kwargs, **extra_kw))
        k = self.finish_new(st, x, origin='reduce')
        self.register_written(st)

    def op_npfunc(self, st):
        """A NumPy function fxpmath does not implement itself (goes through _wrapped_numpy_func)."""
        op = st.op
        self.room()
        a = self.ref(op['slot'])
        ao = self.obj(a)
        st.kind = 'derive'
        st.srcs = [a]
        # negative / absolute / square and the statistics are arithmetic on the operand: their result
        # carries the operand's inaccuracy like any other arithmetic result (floor and sign are not judged)
        prop = [a] if op['f'] in ('negative', 'absolute', 'square', 'mean', 'std', 'var') else []
        b2 = None
        first = ao
        if op['f'] in ('maximum', 'minimum', 'fmod'):
            # two-operand functions served by the same generic wrapper
            b2 = self.ref(op.get('b', 0), lambda o: np.asarray(o.val).shape in ((), np.asarray(ao.val).shape))
            st.srcs = [a, b2]
            prop = [a, b2]
            if op.get('swap'):
                first = self.obj(b2)
        # (NumPy hands the call to the first Fxp argument: its configuration names the register)
        reg = first.config.array_op_out
        self.plan_register(st, reg)
        st.store = Store('dest' if st.dest is not None else 'new', route='npfunc', judge_cb=False,
                         judge_flags=False, prop=prop, arith=op['f'])
        st.extra['arith_route'] = 'np'
        yield
        if op['f'] in ('mean', 'std', 'var') and op.get('route') == 'method':
            x = getattr(self.obj(a), op['f'])()
        else:
            f = {'negative': np.negative, 'absolute': np.absolute, 'square': np.square,
                 'floor': np.floor, 'sign': np.sign, 'mean': np.mean, 'std': np.std, 'var': np.var,
                 'maximum': np.maximum, 'minimum': np.minimum, 'fmod': np.fmod}[op['f']]
            if b2 is not None:
                pair = (self.obj(a), self.obj(b2)) if not op.get('swap') else (self.obj(b2), self.obj(a))
                x = f(*pair)
            else:
                x = f(self.obj(a))
        k = self.finish_new(st, x, origin='npfunc')
        self.register_written(st)

    OBSERVERS = ('str', 'repr', 'bin', 'bin_dot', 'hex', 'base_repr', 'get_val', 'astype_float', 'astype_int',
                 'tolist', 'raw', 'uraw', 'get_status', 'get_status_str', 'info', 'len', 'bool', 'int', 'float',
                 'eq_self', 'lt_const', 'ne_const', 'argmax', 'argmin', 'all', 'any', 'nonzero', 'item',
                 'np_asarray', 'get_dtype', 'attrs', 'real_imag', 'iter')

    def op_observe(self, st):
        """A read-only use of an object: whatever it returns, it must not change anything."""
        op = st.op
        a = self.ref(op['slot'])
        st.kind = 'observe'
        st.pure = True
        st.srcs = [a]
        f = op['f']
        if f not in self.OBSERVERS:
            raise Skip('unknown observer')
        yield
        o = self.obj(a)
        self.bump('observer_called')
        arr = np.asarray(o.val).ndim > 0
        if f == 'str':
            str(o)
        elif f == 'repr':
            repr(o)
        elif f == 'bin':
            o.bin()
        elif f == 'bin_dot':
            o.bin(frac_dot=True)
        elif f == 'hex':
            o.hex()
        elif f == 'base_repr':
            o.base_repr(2)
        elif f == 'get_val':
            o.get_val()
        elif f == 'astype_float':
            o.astype(float)
        elif f == 'astype_int':
            o.astype(int)
        elif f == 'tolist':
            o.tolist()
        elif f == 'raw':
            o.raw()
        elif f == 'uraw':
            o.uraw()
        elif f == 'get_status':
            o.get_status()
        elif f == 'get_status_str':
            o.get_status(format=str)
        elif f == 'info':
            o.info(verbose=3)
        elif f == 'len':
            len(o)
        elif f == 'bool':
            bool(o)
        elif f == 'int':
            int(o)
        elif f == 'float':
            float(o)
        elif f == 'eq_self':
            o == o
        elif f == 'lt_const':
            o < 1.5
        elif f == 'ne_const':
            o != 0
        elif f == 'argmax':
            o.argmax()
        elif f == 'argmin':
            o.argmin()
        elif f == 'all':
            o.all()
        elif f == 'any':
            o.any()
        elif f == 'nonzero':
            o.nonzero()
        elif f == 'item':
            o.item(0) if arr else o.item()
        elif f == 'np_asarray':
            np.asarray(o)
        elif f == 'get_dtype':
            o.get_dtype()
        elif f == 'attrs':
            (o.dtype, o.shape, o.ndim, o.size, o.upper, o.lower, o.precision, o.n_int, o.overflow, o.rounding,
             o.shifting)
        elif f == 'real_imag':
            (o.real, o.imag)
        elif f == 'iter':
            if arr:
                for i in range(len(o)):
                    o[i]

    # shallow routes: generated only by the C02 profile (C20 does not list them as independent)
    def op_shallow(self, st):
        op = st.op
        self.room()
        a = self.ref(op['slot'])
        s = self.slots[a]
        f = op['f']
        st.kind = 'derive'
        st.srcs = [a]
        # copy(), .T and reshape() are shallow by their documented meaning; flatten() ("a copy of the
        # Fxp") and fxp_like() ("new Fxp object like x") promise new objects and are judged as such
        st.extra['shallow'] = f in ('copy', 'T', 'reshape')
        if f in ('T', 'flatten', 'reshape') and np.asarray(s.obj.val).ndim == 0:
            raise Skip('scalar')
        yield
        o = self.obj(a)
        if f == 'copy':
            x = o.copy()
            self.finish_new(st, x, token=s.token, pos=s.pos, origin='shallow')
        elif f == 'T':
            x = o.T
            self.finish_new(st, x, token=s.token, pos=s.pos.T, origin='shallow')
        elif f == 'flatten':
            x = o.flatten()
            self.finish_new(st, x, origin='flatten')
        elif f == 'fxp_like':
            x = fxf.fxp_like(o, None if op.get('val') is None else V.carrier(op['val']))
            self.finish_new(st, x, origin='fxp_like')
        elif f == 'reshape':
            x = o.reshape(-1)
            self.finish_new(st, x)
            s.pos = s.pos.reshape(-1)
        else:
            raise HarnessError(f)

    # ================================================================== ops: mutate in place
    def _plan_inplace(self, st, d):
        st.kind = 'inplace'
        st.dest = d
        st.wset = {d}

    def op_call(self, st):
        op = st.op
        d = self.ref(op['slot'])
        self._plan_inplace(st, d)
        o = self.obj(d)
        fmt = (o.signed, o.n_word, o.n_frac)
        val = op['val']
        st.store = Store('dest', vals=self._vals(val, fmt), route=op.get('via', 'call'),
                         modes_from=('slot', d), fmt_req=fmt)
        st.extra['val'] = val
        via = op.get('via', 'call')
        st.redo = (lambda t, src: t.set_val(V.carrier(val))) if via == 'set_val' else \
            (lambda t, src: t(V.carrier(val)))
        yield
        c = V.carrier(val)
        if via == 'set_val':
            r = self.obj(d).set_val(c)
        else:
            r = self.obj(d)(c)
        st.ret = r
        self.fresh_buffer(d)

    def _vals(self, val, fmt):
        try:
            return V.exact(val, fmt)
        except Exception:
            return None

    def op_set_raw(self, st):
        op = st.op
        d = self.ref(op['slot'])
        self._plan_inplace(st, d)
        o = self.obj(d)
        fmt = (o.signed, o.n_word, o.n_frac)
        sh, flat = V.exact(op['val'])
        vals = (sh, [Q.unscale(c, o.n_frac) for c in flat])
        st.store = Store('dest', vals=vals, raw=True, route='set_val_raw', modes_from=('slot', d),
                         fmt_req=fmt)
        kw = {}
        if op.get('vdtype') in ('int', 'float', 'int64', 'float64'):
            # the documented vdtype= keyword of a raw write ("data type to overwrite Fxp vdtype")
            kw['vdtype'] = {'int': int, 'float': float, 'int64': np.int64, 'float64': np.float64}[op['vdtype']]
            self.bump('raw_write_with_vdtype')
        st.redo = lambda t, src: t.set_val(V.carrier(op['val']), raw=True, **kw)
        st.extra['val'] = op['val']
        yield
        st.ret = self.obj(d).set_val(V.carrier(op['val']), raw=True, **kw)
        self.fresh_buffer(d)

    def op_setitem(self, st):
        op = st.op
        d = self.ref(op['slot'], lambda o: isinstance(o.val, np.ndarray))
        index = decode_index(op['index'])
        st.kind = 'indexed'
        self.plan_indexed(st, d, index)
        o = self.obj(d)
        fmt = (o.signed, o.n_word, o.n_frac)
        st.store = Store('dest', vals=self._vals(op['val'], fmt), route='setitem',
                         modes_from=('slot', d), fmt_req=fmt, region=index)
        st.extra['val'] = op['val']
        st.redo = lambda t, src: t.set_val(V.carrier(op['val']), index=index)
        yield
        c = V.carrier(op['val'])
        adv = index_is_advanced(op['index'])
        try:
            if op.get('via') == 'set_val':
                self.obj(d).set_val(c, index=index)
            else:
                self.obj(d)[index] = c
        finally:
            if adv:
                self.bump('setitem_advanced_index')
                if not same_index(index, decode_index(op['index'])):
                    st.extra['index_mutated'] = repr(index)

    def op_setitem_chain(self, st):
        """The documented x[i][j] = v: must write through to x."""
        op = st.op
        has_el = any(isinstance(x, list) and x and x[0] == 'el' for x in
                     (op['i'] if isinstance(op['i'], list) else [op['i']])) or op['i'] == ['el']
        d = self.ref(op['slot'], (lambda o: isinstance(o.val, np.ndarray)) if has_el
                     else (lambda o: np.asarray(o.val).ndim >= 2))
        i, j = decode_index(op['i']), decode_index(op['j'])
        s = self.slots[d]
        st.kind = 'indexed'
        try:
            sub = s.pos[i]
            region = sub[j]
        except Exception:
            sub = region = None
        st.index = (i, j)
        st.dest = d
        if region is None or not isinstance(sub, np.ndarray):
            st.wset = set(self.group(d))
            st.wthrough = None
        else:
            affected = set(np.asarray(region).ravel().tolist())
            st.extra['affected'] = affected
            ws = {d}
            for k in self.group(d):
                if k != d and affected & set(self.slots[k].pos.ravel().tolist()):
                    ws.add(k)
            st.wset = ws
            st.wthrough = affected
        o = self.obj(d)
        fmt = (o.signed, o.n_word, o.n_frac)
        st.store = Store('dest', vals=self._vals(op['val'], fmt), route='setitem_chain',
                         modes_from=('slot', d), fmt_req=fmt, region=(i, j), judge_flags=False,
                         judge_cb=False)
        st.extra['val'] = op['val']
        yield
        self.bump('chained_setitem')
        # x[i][j] = v, spelled as the two calls Python makes, so that the transient view stays
        # observable: what it holds afterwards must be what the root holds at the same place
        t = self.obj(d)[i]
        st.extra['chain_transient'] = t
        t[j] = V.carrier(op['val'])
        if has_el:
            self.bump('chained_setitem_through_0d_view')

    def op_equal(self, st):
        op = st.op
        d = self.ref(op['slot'])
        self._plan_inplace(st, d)
        o = self.obj(d)
        fmt = (o.signed, o.n_word, o.n_frac)
        srcd = op['src']
        if 'slot' in srcd:
            src = d if srcd.get('self') else self.ref(srcd['slot'])
            if src == d and not srcd.get('self'):
                raise Skip('self')
            st.srcs = [src]
            st.store = Store('dest', src=src, route='equal', modes_from=('slot', d), fmt_req=fmt)
        else:
            src = None
            st.store = Store('dest', vals=self._vals(srcd['val'], fmt), route='equal_val',
                             modes_from=('slot', d), fmt_req=fmt)
        st.redo = (lambda t, so: t.equal(so)) if src is not None else \
            (lambda t, so: t.equal(V.carrier(srcd['val'])))
        yield
        a = self.obj(src) if src is not None else V.carrier(srcd['val'])
        st.ret = self.obj(d).equal(a)
        self.fresh_buffer(d)

    def op_set_from(self, st):
        op = st.op
        d = self.ref(op['slot'])
        src = d if op.get('self') else self.ref(op['src'])      # 'self': x(x), the object is its own source
        if src == d and not op.get('self'):
            raise Skip('self')
        if src == d:
            self.bump('self_conversion')
        self._plan_inplace(st, d)
        o = self.obj(d)
        fmt = (o.signed, o.n_word, o.n_frac)
        st.srcs = [src]
        st.store = Store('dest', src=src, route='set_from_' + op.get('via', 'call'),
                         modes_from=('slot', d), fmt_req=fmt)
        st.redo = (lambda t, so: t.set_val(so)) if op.get('via') == 'set_val' else (lambda t, so: t(so))
        yield
        if op.get('via') == 'set_val':
            st.ret = self.obj(d).set_val(self.obj(src))
        else:
            st.ret = self.obj(d)(self.obj(src))
        self.fresh_buffer(d)

    def op_setitem_from(self, st):
        op = st.op
        d = self.ref(op['slot'], lambda o: np.asarray(o.val).ndim > 0)
        src = d if (op.get('self') and op.get('sindex') is not None) else self.ref(op['src'])
        if src == d and not op.get('self'):
            raise Skip('self')
        if src == d:
            self.bump('self_conversion')        # x[i] = x[j]
        index = decode_index(op['index'])
        sindex = op.get('sindex')
        if sindex is not None:
            sindex = decode_index(sindex)
            if np.asarray(self.obj(src).val).ndim == 0:
                raise Skip('scalar source')
        st.kind = 'indexed'
        self.plan_indexed(st, d, index)
        o = self.obj(d)
        fmt = (o.signed, o.n_word, o.n_frac)
        st.srcs = [src]
        st.store = Store('dest', src=src, src_index=sindex, route='setitem_from',
                         modes_from=('slot', d), fmt_req=fmt, region=index)
        yield
        so = self.obj(src)
        if sindex is not None:
            so = so[sindex]
            st.transients.append(so)
        via = op.get('via')
        if via == 'equal':
            self.bump('indexed_conversion_by_equal')
            self.obj(d).equal(so, index=index)          # the rarely used index= keyword of equal()
        elif via == 'set_val':
            self.obj(d).set_val(so, index=index)
        else:
            self.obj(d)[index] = so

    def op_resize(self, st):
        op = st.op
        d = self.ref(op['slot'])
        self._plan_inplace(st, d)
        o = self.obj(d)
        if op.get('dtype') is not None:
            req = tuple(op['fmt'])
        else:
            s, w, f = self.fmt_args(op['fmt'])
            ni = op.get('n_int')
            rs = bool(o.signed) if s is None else s
            if ni is not None:
                # documented: with n_int and one other size the third follows arithmetically,
                # counting the sign bit of the REQUESTED signedness
                if w is None and f is not None:
                    w = ni + f + (1 if rs else 0)
                elif f is None and w is not None:
                    f = w - ni - (1 if rs else 0)
            req = (rs, o.n_word if w is None else w, o.n_frac if f is None else f)
        keep_raw = op.get('restore_val') is False
        if keep_raw:
            # resize(..., restore_val=False): the raw CODES are kept (re-clamped into the new word), not the
            # value - a raw write of the old codes into the new format, not a conversion route of C10
            sh, kind, flat = codes_of(o)
            vals = None
            if kind in 'iu' and all(type(c) is int for c in flat) and req[2] is not None:
                vals = (sh, [Q.unscale(c, req[2]) for c in flat])
            st.store = Store('dest', vals=vals, raw=True, route='resize_keepraw', modes_from=('slot', d), fmt_req=req)
            self.bump('resize_without_restoring_the_value')
        else:
            st.store = Store('dest', src=d, route='resize_dtype' if op.get('dtype') else 'resize',
                             modes_from=('slot', d), fmt_req=req)

        def call(t):
            kw = {'restore_val': False} if keep_raw else {}
            if op.get('dtype') is not None:
                if op.get('with'):
                    kw.update(op['with'])
                return t.resize(dtype=op['dtype'], **kw)
            a, b, c = self.fmt_args(op['fmt'])
            if op.get('n_int') is not None:
                return t.resize(a, b, c, op['n_int'], **kw)
            return t.resize(a, b, c, **kw)
        st.redo = lambda t, so: call(t)
        if op.get('with'):
            # dtype= together with a size keyword is documented to raise ValueError: the request is turned
            # down as a whole, the object stays in play and is judged like every other live object
            st.expect_reject = True
            self.bump('resize_dtype_with_sizes_rejected')
        yield
        call(self.obj(d))
        self.fresh_buffer(d)

    def op_reset(self, st):
        d = self.ref(st.op['slot'])
        self._plan_inplace(st, d)
        st.extra['reset'] = True
        yield
        self.obj(d).reset()

    def op_from_bin(self, st):
        op = st.op
        d = self.ref(op['slot'])
        self._plan_inplace(st, d)
        o = self.obj(d)
        fmt = (o.signed, o.n_word, o.n_frac)
        raw = bool(op.get('raw'))
        vals = None
        if not raw:
            vals = self._vals(['b', op['bits']], fmt)
        st.store = Store('dest', vals=vals, route='from_bin', modes_from=('slot', d), fmt_req=fmt,
                         judge_flags=not raw, judge_cb=True)
        yield
        st.ret = self.obj(d).from_bin(op['bits'], raw=raw)
        self.fresh_buffer(d)

    def op_sort_inplace(self, st):
        d = self.ref(st.op['slot'], lambda o: np.asarray(o.val).ndim > 0)
        st.kind = 'indexed'
        st.dest = d
        st.wset = set(self.group(d))
        st.wthrough = None
        st.extra['sort'] = True
        yield
        self.obj(d).sort()

    def op_config_set(self, st):
        op = st.op
        d = self.ref(op['slot'])
        st.kind = 'config'
        st.dest = d
        st.wset = {d}
        valid = bool(op.get('valid', True))
        st.expect_reject = not valid
        if not valid:
            st.wset = set()
        st.extra['field'] = op['field']
        yield
        o = self.obj(d)
        v = decode_value(op['value'])
        via = op.get('via', 'config')
        if not valid:
            self.bump('fault_F1_injected')
        if via == 'mirror' and op['field'] in ('overflow', 'rounding', 'shifting'):
            setattr(o, op['field'], v)
        elif via == 'update':
            o.config.update(**{op['field']: v})
        else:
            setattr(o.config, op['field'], v)

    def op_register_set(self, st):
        op = st.op
        d = self.ref(op['slot'])
        st.kind = 'config'
        st.dest = d
        st.wset = {d}
        r = None
        if op.get('reg') is not None:
            r = self.ref(op['reg'])
            if self.reg_reaches(self.obj(r), self.obj(d)):
                # mutually referencing registers make copy.deepcopy hand out half-built objects;
                # that configuration is outside every property, so it is not generated
                raise Skip('register cycle')
        st.extra['field'] = op['field']
        same = op.get('same_as')
        yield
        if same in REG_FIELDS and isinstance(getattr(self.obj(d).config, '_' + same, None), Fxp):
            # the register another field of this object already names (one register, two fields)
            setattr(self.obj(d).config, op['field'], getattr(self.obj(d).config, '_' + same))
            self.bump('register_named_by_two_fields')
        else:
            setattr(self.obj(d).config, op['field'], None if r is None else self.obj(r))
        if op.get('method') in ('raw', 'repr'):
            # ... together with the calculation method of the route the register belongs to
            setattr(self.obj(d).config, 'array_op_method' if op['field'].startswith('array_') else 'op_method',
                    op['method'])
        self.bump('register_configured')

    def op_bad_ctor(self, st):
        """F1 through a constructor: an invalid configuration value must be rejected."""
        op = st.op
        st.kind = 'config'
        st.pure = True
        st.expect_reject = True
        yield
        self.bump('fault_F1_injected')
        if op.get('cls') == 'Config':
            st.ret = Config(**{op['field']: decode_value(op['value'])})
        else:
            st.ret = Fxp(1.0, True, 8, 2, **{op['field']: decode_value(op['value'])})
        st.transients.append(st.ret)

    # ================================================================== ops: environment
    def op_template_set(self, st):
        t = self.ref(st.op['slot'])
        st.kind = 'env'
        st.pure = True
        yield
        Fxp.template = self.obj(t)
        self.template = t
        self.bump('fault_F5_template_flip')

    def op_template_clear(self, st):
        st.kind = 'env'
        st.pure = True
        if self.template is None:
            raise Skip('no template')
        yield
        Fxp.template = None
        self.template = None
        self.bump('fault_F5_template_flip')

    def op_cfg_template(self, st):
        """Flip the process-global Config.template (fault F5) to one of the caller's Configs, or
        clear it.  Objects built afterwards take their defaults from a deep copy of it."""
        op = st.op
        st.kind = 'env'
        st.pure = True
        if op.get('c') is None:
            if self.cfg_template is None:
                raise Skip('no Config.template')
        elif not self.configs:
            raise Skip('no config')
        yield
        if op.get('c') is None:
            Config.template = None
            self.cfg_template = None
        else:
            self.cfg_template = op['c'] % len(self.configs)
            Config.template = self.configs[self.cfg_template]
        self.bump('fault_F5_config_template_flip')

    def op_cont_new(self, st):
        if len(self.containers) >= 4:
            raise Skip('containers full')
        st.kind = 'env'
        st.pure = True
        yield
        c = V.carrier(st.op['spec'])
        self.containers.append([c, copy.deepcopy(c)])

    def op_cfg_new(self, st):
        """The caller builds its own Config (optionally naming a live object as result register)."""
        op = st.op
        if len(self.configs) >= 3:
            raise Skip('configs full')
        st.kind = 'env'
        st.pure = True
        r = None
        if op.get('reg') is not None:
            r = self.ref(op['reg'])
        yield
        kw = dict(op.get('kw') or {})
        if r is not None:
            kw[op.get('field', 'op_out')] = self.obj(r)
        self.configs.append(Config(**kw))
        self.config_pristine.append(self.snap_cfg(self.configs[-1]))

    def op_cfg_mutate(self, st):
        """The caller changes its own Config after having used it: no object may notice."""
        op = st.op
        if not self.configs:
            raise Skip('no config')
        st.kind = 'env'
        st.pure = True
        yield
        c = op['c'] % len(self.configs)
        setattr(self.configs[c], op['field'], op['value'])
        self.config_pristine[c] = self.snap_cfg(self.configs[c])
        self.bump('fault_F6_caller_config_mutated')

    def op_export(self, st):
        """The caller takes a snapshot of an object with np.array(x) - documented by NumPy to be a copy -
        and keeps it as one of its own arrays: from then on it is an input container like any other
        (later writes on the object must not show in it, and the caller's writes into it - fault F6 -
        must not show in the object)."""
        op = st.op
        if len(self.containers) >= 4:
            raise Skip('containers full')
        a = self.ref(op['slot'], lambda o: np.asarray(o.val).dtype.kind in 'iu')
        st.kind = 'observe'
        st.pure = True
        st.srcs = [a]
        yield
        o = self.obj(a)
        how = op.get('how', 'array')
        if how == 'array':
            arr = np.array(o)
        elif how == 'array_copy':
            arr = np.array(o, copy=True)
        else:
            arr = np.asarray(o, copy=True)
        if not isinstance(arr, np.ndarray) or arr.dtype.kind not in 'iuf':
            return
        self.bump('exported_snapshot')
        if isinstance(o.val, np.ndarray) and np.shares_memory(arr, o.val):
            st.extra['export_aliases'] = a
        self.containers.append([arr, copy.deepcopy(arr)])

    def op_cont_mutate(self, st):
        op = st.op
        if not self.containers:
            raise Skip('no container')
        c = op['c'] % len(self.containers)
        st.kind = 'env'
        st.pure = True
        st.extra['container_mutated'] = c
        if not isinstance(self.containers[c][0], (list, np.ndarray)):
            raise Skip('immutable container')
        yield
        obj = self.containers[c][0]
        v = V.carrier(op['val'])
        if isinstance(obj, np.ndarray) and obj.size == 0:
            return       # (an empty array: nothing the caller could overwrite)
        if isinstance(obj, np.ndarray):
            i = op['k'] % obj.size
            try:
                obj.flat[i] = v
            except (ValueError, TypeError, OverflowError):
                # the carrier does not fit the array's element type (a string or a huge integer
                # into an exported integer snapshot): the caller writes some other number instead
                obj.flat[i] = 1 if obj.flat[i] == 0 else 0
        elif isinstance(obj, list):
            tgt = obj
            while tgt and isinstance(tgt[0], list):
                tgt = tgt[op['k'] % len(tgt)]
            if not tgt:
                return   # (an empty list)
            tgt[op['k'] % len(tgt)] = v
        else:
            raise Skip('immutable container')
        self.containers[c][1] = copy.deepcopy(obj)
        self.bump('fault_F6_container_mutated')

    def op_drop(self, st):
        d = self.ref(st.op['slot'])
        st.kind = 'env'
        st.pure = True
        st.extra['dropped'] = d
        yield
        self.kill(d)

    def op_cb_attach(self, st):
        op = st.op
        d = self.ref(op['slot'])
        st.kind = 'env'
        st.pure = True
        yield
        o = self.obj(d)
        if o.callbacks is None:
            o.callbacks = []
        cbs = self.make_cbs(int(op.get('n', 1)), op.get('sites'))
        for c in cbs:
            c.owner = o
        o.callbacks.extend(cbs)

    def op_cb_replace(self, st):
        """The caller swaps registered callbacks for new ones: a new list or an in-place replacement,
        the newcomers comparing EQUAL to the ones they replace (value-equality handlers) or not.  From
        then on the newcomers are owed the notifications and the retired ones none."""
        op = st.op
        d = self.ref(op['slot'], lambda o: bool(o.callbacks))
        st.kind = 'env'
        st.pure = True
        yield
        o = self.obj(d)
        before = list(o.callbacks)

        def twin(c):
            n = type(c)(self.new_cid())
            n.set_sites(c.sites)
            if op.get('equal', True):
                n.label = c.label
            n.owner = o
            self.all_cbs.append(n)
            return n
        how = op.get('how', 'list')
        if how == 'list':
            o.callbacks = [twin(c) if isinstance(c, SimCallback) else c for c in before]
        elif how == 'inplace':
            k = op.get('k', 0) % len(before)
            if isinstance(before[k], SimCallback):
                o.callbacks[k] = twin(before[k])
        else:       # 'slice': the same list object, new content
            o.callbacks[:] = [twin(c) if isinstance(c, SimCallback) else c for c in before]
        for c in before:
            if isinstance(c, SimCallback) and not any(c is x for x in o.callbacks):
                c.retired = True
                c.armed = {}
        self.bump('callbacks_replaced')

    def op_cb_arm(self, st):
        """Arm one callback of a slot: at its next firing on `site` it raises (F3) or runs the
        given ops on other slots (F4)."""
        op = st.op
        d = self.ref(op['slot'], lambda o: bool(o.callbacks))
        st.kind = 'env'
        st.pure = True
        yield
        cbs = [c for c in self.obj(d).callbacks if isinstance(c, SimCallback)]
        if not cbs:
            return
        cb = cbs[op.get('k', 0) % len(cbs)]
        if op.get('nocopy'):
            cb.nocopy = True
            self.bump('fault_F2_uncopyable_callback_set')
        elif op.get('unregister'):
            cb.armed[op['site']] = {'unregister': True}
            self.bump('fault_F7_unregister_armed')
        elif op.get('selfwiden'):
            cb.armed[op['site']] = {'selfwiden': int(op['selfwiden'])}
            self.bump('fault_F10_armed')
        elif op.get('selfreset'):
            cb.armed[op['site']] = {'selfreset': True}
            self.bump('fault_F8_armed')
        elif op.get('selfwrite') is not None:
            cb.armed[op['site']] = {'selfwrite': op['selfwrite'], 'via': op.get('via', 'call')}
            self.bump('fault_F8_armed')
        elif op.get('raise'):
            cb.armed[op['site']] = {'raise': True}
            if op.get('sticky'):
                cb.armed[op['site']]['sticky'] = True
                self.bump('fault_F3_strict_armed')
            self.bump('fault_F3_armed')
        else:
            cb.armed[op['site']] = {'ops': op.get('ops') or []}
            self.bump('fault_F4_armed')

    # ------------------------------------------------------------------ run level
    def reset_globals(self):
        Fxp.template = None
        Config.template = None
        self.template = None
        self.cfg_template = None


def run_program(ops, oracles, profile=None, stop_on_violation=True):
    """Execute a flat list of ops in a fresh world.  Returns the world."""
    w = World(oracles, profile)
    w.reset_globals()
    try:
        for op in ops:
            w.execute(op)
            if w.halt and stop_on_violation:
                break
    finally:
        Fxp.template = None
        Config.template = None
    return w
