"""Seeded, state-aware generation of operation-and-fault programs (DESIGN 3.3-3.5).

One random.Random decides everything for a run: the swarm profile, then every step's op and
arguments.  Generation looks at the simulated world (formats, shapes, flags) to aim at
boundaries, but what it emits is a concrete op descriptor; execution never draws from the PRNG.
"""
from fractions import Fraction

import numpy as np

from . import quant as Q
from . import values as V
from .engine import SITES, REG_FIELDS

ROUNDINGS = ['trunc', 'around', 'floor', 'ceil', 'fix']
OVERFLOWS = ['saturate', 'wrap']
SIZINGS = ['optimal', 'same', 'fit', 'largest', 'smallest']

INVALID = {
    'overflow': ['Saturate', 'clip', '', None, 1, ['wrap'], 'WRAP'],
    'rounding': ['Trunc', 'round', 'nearest', None, 0, 'FLOOR'],
    'shifting': ['Expand', 'none', None, 2],
    'op_method': ['RAW', 'fast', None, 1],
    'op_input_size': ['Same', 'worst', None],
    'op_sizing': ['Optimal', 'biggest', None, 3],
    'const_op_sizing': ['Same', 'tiny', None],
    'array_output_type': ['Fxp', 'list', None],
    'array_op_method': ['Repr', 'both', None],
    'dtype_notation': ['q', 'fxp ', 'FXP', None],
    'max_error': [0, -1.0, -1e-9],
    'n_word_max': [0, -8, 3.5, '64', None],
    'op_out': [5, 'x', [1], 1.5],
    'op_out_like': [5, 'x', (1,)],
    'array_op_out': [0, 'y', [2]],
    'array_op_out_like': [7, 'z'],
}
# look-alikes of VALID values that are not strings: one-element and 0-d NumPy string arrays, bytes, tuples
for _f, _ok in (('overflow', 'wrap'), ('rounding', 'around'), ('shifting', 'trunc'), ('op_method', 'repr'),
                ('op_input_size', 'best'), ('op_sizing', 'same'), ('const_op_sizing', 'fit'),
                ('array_output_type', 'fxp'), ('array_op_method', 'raw'), ('dtype_notation', 'Q')):
    INVALID[_f] = INVALID[_f] + [{'np': [_ok]}, {'np0': _ok}, {'bytes': _ok}, {'tuple': [_ok]}]

VALID = {
    'overflow': OVERFLOWS, 'rounding': ROUNDINGS, 'shifting': ['expand', 'trunc', 'keep'],
    'op_method': ['raw', 'repr'], 'op_input_size': ['same', 'best'], 'op_sizing': SIZINGS,
    'const_op_sizing': SIZINGS, 'array_output_type': ['fxp'], 'array_op_method': ['raw', 'repr'],
    'dtype_notation': ['fxp', 'Q'], 'max_error': [1e-6, 2.0 ** -20], 'n_word_max': [64, 48, 32, 16, 8],
}

FAULT_KINDS = ('F1', 'F2', 'F3', 'F4', 'F5', 'F6', 'F8')


class Profile(dict):
    __getattr__ = dict.__getitem__


def draw_profile(rng, prop, faults, tier='quick'):
    fam = rng.choice(['tiny', 'tiny', 'byte', 'byte', 'mid', 'wide'])
    long_run = tier == 'thorough' and rng.random() < 0.25     # the thorough tier adds long histories
    p = Profile(
        prop=prop, family=fam,
        steps=rng.randint(29, 64) if long_run else rng.randint(5, 28),
        p_array=rng.choice([0.0, 0.3, 0.6, 0.9]),
        p_negfrac=rng.choice([0.0, 0.1, 0.3]),
        actors=rng.randint(1, 3),
        faults=sorted(k for k in FAULT_KINDS if faults and rng.random() < 0.4 and (k != 'F8' or prop == 'C04')),
        fault_rate=rng.choice([0.05, 0.1, 0.2]),
        p_boundary=rng.choice([0.3, 0.6, 0.85]),
        p_register=rng.choice([0.0, 0.0, 0.15, 0.4]),
        p_cb=rng.choice([0.0, 0.3, 0.7]) if prop in ('C04',) or faults else 0.0,
        wide64=(prop == 'C02' and rng.random() < 0.08),
        groups=None,
        # locality: how often a step acts on an object the previous steps just produced or wrote
        p_hot=rng.choice([0.0, 0.15, 0.35, 0.6]),
    )
    if faults and not p['faults']:
        p['faults'] = [rng.choice(FAULT_KINDS if prop == 'C04' else FAULT_KINDS[:-1])]
    if ('F3' in p['faults'] or 'F4' in p['faults'] or 'F8' in p['faults']) and p['p_cb'] == 0.0:
        p['p_cb'] = 0.5
    # swarm: disable a random subset of op groups
    groups = ['derive_arith', 'derive_bits', 'derive_index', 'derive_reduce', 'derive_copy',
              'mutate_value', 'mutate_index', 'mutate_format', 'mutate_config', 'registers',
              'templates', 'containers', 'strings']
    p['groups'] = sorted(g for g in groups if rng.random() < 0.75)
    # index kinds: lists, integer arrays and boolean masks next to the basic ones (copies, not views)
    p['adv_index'] = rng.random() < 0.6
    # a few runs also make one or two writes of LARGE arrays (the array size is a dimension too)
    p['big_arrays'] = rng.random() < 0.05
    return p


class Gen(object):
    def __init__(self, rng, profile, world, banned=()):
        self.banned = set(banned)
        self.rng = rng
        self.p = profile
        self.w = world
        self.actor = 0
        self.hot = []         # slots produced or written by the last two steps (most recent first)
        self.queue = []       # generator functions to be used for the next steps (macro sequences)
        self.force = None     # slot the next pick() must return if it qualifies (set by macros)

    def note(self, step):
        """Told by the run loop what the step just executed touched (locality bias of pick)."""
        touched = []
        for s in [step] + list(step.nested):
            touched += list(s.new)
            if s.dest is not None:
                touched.append(s.dest)
            if s.ret_slot is not None:
                touched.append(s.ret_slot)
        seen = []
        for i in touched + self.hot:
            if i not in seen:
                seen.append(i)
        self.hot = seen[:3]

    # ------------------------------------------------------------------ formats and values
    def fmt(self):
        r, fam = self.rng, self.p.family
        if r.random() < 0.15:
            fam = r.choice(['tiny', 'byte', 'mid', 'wide'])
        if self.p.wide64 and r.random() < 0.3:
            nw = r.randint(64, 70)
        elif fam == 'tiny':
            nw = r.randint(1, 6)
        elif fam == 'byte':
            nw = r.randint(4, 16)
        elif fam == 'mid':
            nw = r.choice([24, 30, 31, 32, 33, 34])
        else:
            nw = r.randint(40, 52)
        signed = r.random() < 0.6
        if r.random() < self.p.p_negfrac:
            nf = r.choice([r.randint(-8, -1), r.randint(nw + 1, nw + 8)])
        elif r.random() < 0.12:
            nf = 0      # integer formats: objects that start with an integer value type
        else:
            nf = r.randint(0, nw)
        return [signed, nw, nf]

    def near_fmt(self, fmt):
        """A format related to fmt so that conversions are interesting (narrower, wider, shifted)."""
        r = self.rng
        s, nw, nf = fmt
        k = r.random()
        if k < 0.3:
            nw2 = max(1, nw - r.randint(1, max(1, min(4, nw - 1))))
            return [s if r.random() < 0.8 else not s, nw2, min(nf, nw2 + 8) - r.randint(0, 2)]
        if k < 0.42:
            return [not s, nw, nf]
        if k < 0.5:
            # the sign change that keeps every value: one (or a few) more word bits, same fraction
            return [not s, min(52, nw + r.randint(1, 3)), nf]
        if k < 0.7:
            d = r.randint(1, 6)
            return [s, min(52, nw + d), nf + r.randint(-1, d)]
        if k < 0.85:
            return [s, nw, max(-8, nf - r.randint(1, 4))]
        if k < 0.9:
            # many more fraction bits: the re-scaled code outgrows the machine word before it is clamped
            return self.clamp_fmt([s, min(52, nw + r.randint(0, 6)), nf + r.randint(12, 50)])
        return self.fmt()

    def clamp_fmt(self, fmt):
        s, nw, nf = fmt
        nw = max(1, min(nw, 70 if self.p.wide64 else 52))
        nf = max(-8, min(nf, nw + 8))
        return [bool(s), nw, nf]

    def value(self, fmt, rounding='trunc', kind=None, domain=True):
        """An exact dyadic value aimed at `fmt`."""
        r = self.rng
        s, nw, nf = fmt
        self._nf = nf
        lo, hi = Q.bounds(s, nw)
        extra = 0 if nw > 48 else r.choice([0, 1, 2, 3])
        if kind is None:
            if r.random() < self.p.p_boundary:
                kind = r.choice(['hi', 'lo', 'hi+', 'lo-', 'hi+half', 'lo-half', 'tie', 'far', 'far-',
                                 'zero', 'hi+frac', 'lo-frac', 'near_hi', 'near_lo', 'pow2', 'pow2', 'tiny'])
            else:
                kind = r.choice(['exact', 'exact', 'inexact', 'inexact', 'tie'])
        half = Fraction(1, 2)
        fr = Fraction(r.randint(1, (1 << extra) - 1), 1 << extra) if extra else Fraction(0)
        if kind == 'exact':
            c = Fraction(r.randint(lo, hi))
        elif kind == 'inexact':
            c = r.randint(lo, hi) + fr
        elif kind == 'hi':
            c = Fraction(hi)
        elif kind == 'lo':
            c = Fraction(lo)
        elif kind == 'hi+':
            c = Fraction(hi + r.randint(1, 3))
        elif kind == 'lo-':
            c = Fraction(lo - r.randint(1, 3))
        elif kind == 'hi+half':
            c = hi + (half if extra else Fraction(1))
        elif kind == 'lo-half':
            c = lo - (half if extra else Fraction(1))
        elif kind == 'hi+frac':
            c = hi + fr
        elif kind == 'lo-frac':
            c = lo - fr
        elif kind == 'near_hi':
            c = hi - r.randint(0, 2) + fr
        elif kind == 'near_lo':
            c = lo + r.randint(0, 2) - fr
        elif kind == 'tiny' and r.random() < 0.2:
            # the smallest subnormal doubles themselves (their product with 2**n_frac underflows to zero
            # when n_frac is negative)
            return Fraction(r.choice([1, -1]) * r.choice([1, 1, 2, 3]), 1 << 1074)
        elif kind == 'tiny':
            # far below the format's resolution (down to denormals), optionally on top of a code
            base = Fraction(r.choice([0, 0, r.randint(lo, hi)]))
            t = Fraction(r.choice([1, -1]), 1 << r.choice([r.randint(8, 40), r.randint(60, 200), r.randint(900, 1060)]))
            v = Q.unscale(base, nf) + Q.unscale(t, nf) if base == 0 else Q.unscale(base, nf) + Q.unscale(Fraction(t.numerator, 1 << r.randint(4, 20)), nf)
            if V.float_ok(v) and abs(v) < (1 << 52):
                return v
            c = base
        elif kind == 'pow2':
            # a single-bit code (often the top bit): where magnitude estimates by log2 are tight
            k = r.choice([nw - 1, nw - 1, nw - 2, r.randint(0, max(0, nw - 1))]) - (1 if s else 0)
            c = Fraction(1 << max(0, k))
            if s and r.random() < 0.4:
                c = -c
            c = max(Fraction(lo), min(Fraction(hi), c))
        elif kind == 'tie':
            c = r.randint(lo, hi) + (half if extra else Fraction(0))
        elif kind == 'far':
            c = Fraction(hi * r.randint(2, 9) + r.randint(0, 5)) + fr
        elif kind == 'far-':
            c = Fraction(-(hi + 1) * r.randint(2, 9) - r.randint(0, 5)) - fr
        else:
            c = Fraction(0)
        v = Q.unscale(c, nf)
        if domain:
            if abs(v) >= (1 << 52) or abs(c) >= (1 << 61) or not V.float_ok(v):
                v = Q.unscale(Fraction(max(lo, min(hi, int(c)))), nf)
                if abs(v) >= (1 << 52) or not V.float_ok(v):
                    v = Fraction(0)
        return v

    def scalar_spec(self, v, allow_str=True):
        r = self.rng
        v = Fraction(v)
        num, exp = V.frac_to_pair(v)
        if r.random() < 0.06:
            dt = self.exotic_dtype([v])
            if dt is not None:
                return ['n', dt, num, exp]
        if v.denominator == 1:
            k = r.random()
            n = int(v)
            if k < 0.45 or abs(n) >= (1 << 53):
                return ['i', n]
            if k < 0.7:
                return ['f', num, exp]
            if k < 0.85 and abs(n) < (1 << 62):
                return ['n', 'int64' if abs(n) >= (1 << 31) or r.random() < 0.5 else 'int32', num, exp]
            if k < 0.93 and allow_str and 'strings' in self.p.groups and abs(n) < 10 ** 12:
                return ['s', num, exp]
            return ['f', num, exp]
        k = r.random()
        if allow_str and k < 0.05 and self.p.prop in ('C04', 'C02') and abs(num).bit_length() <= 28 and -14 <= exp <= 0 \
                and 0 <= getattr(self, '_nf', -1) <= 20:
            return ['d', num, exp]        # a decimal.Decimal (scalar inputs only; few digits: stays exact)
        if k < 0.7:
            return ['f', num, exp]
        if k < 0.85:
            if abs(num).bit_length() <= 24 and -100 < exp < 100:
                return ['n', 'float32', num, exp]
            return ['n', 'float64', num, exp]
        if allow_str and 'strings' in self.p.groups and -exp <= 12 and abs(v) < 10 ** 9:
            return ['s', num, exp]
        return ['f', num, exp]

    def exotic_dtype(self, vals):
        """A less common NumPy type that holds every one of `vals` exactly (narrow and unsigned
        integers, half and extended precision floats), or None."""
        r = self.rng
        vals = [Fraction(v) for v in vals]
        if all(v.denominator == 1 for v in vals):
            lo, hi = min(vals), max(vals)
            c = [dt for dt in ('int8', 'int16', 'int32', 'uint8', 'uint16', 'uint32', 'uint64')
                 if np.iinfo(dt).min <= lo and hi <= np.iinfo(dt).max]
        else:
            c = []
        try:
            if all(V.float_ok(v) and Fraction(float(np.float16(float(v)))) == v for v in vals):
                c.append('float16')
        except (OverflowError, ValueError):
            pass
        if all(V.float_ok(v) for v in vals):
            c.append('longdouble')
            c.append('>f8')                                    # non-native byte order (data read from a file)
        if all(v.denominator == 1 and -(1 << 31) <= v < (1 << 31) for v in vals):
            c += ['>i4', '>i8']
        return r.choice(c) if c else None

    def recase(self, dt):
        """The same fxp-notation dtype string in another letter case (the parser case-folds)."""
        k = self.rng.random()
        if k < 0.7:
            return dt
        if k < 0.8:
            return dt.upper()
        if k < 0.9:
            return 'fxp-' + dt[4].upper() + dt[5:]
        return 'FXP-' + dt[4:]

    def shape(self):
        r = self.rng
        if r.random() < 0.07:
            # rarer shapes: single-element arrays of rank 2, columns, rank 3, and empty arrays
            return r.choice([(1, 1), (2, 1), (3, 1), (1, 2), (2, 1, 2), (2, 2, 2), (1, 1, 3), (0,), (2, 0)])
        return r.choice([(2,), (3,), (4,), (2, 2), (2, 3), (3, 2), (3, 3), (1, 3), (1,)])

    def array_spec(self, fmt, shape, rounding='trunc', kind=None):
        r = self.rng
        n = int(np.prod(shape))
        kinds = None
        if n == 0:
            # an empty array: a float64 / int64 / object ndarray or an empty (nested) list
            k0 = r.random()
            if k0 < 0.6:
                return ['a', r.choice(['float64', 'int64', 'float64']), list(shape), []]

            def empty(sh):
                return ['l', []] if len(sh) == 1 or sh[0] == 0 else ['l', [empty(sh[1:]) for _ in range(sh[0])]]
            return empty(list(shape))
        if r.random() < 0.35:
            # exactly one special element (separates any() from all())
            kinds = ['exact'] * n
            kinds[r.randrange(n)] = r.choice(['hi+', 'lo-', 'inexact', 'tie', 'far'])
        elif r.random() < 0.15:
            kinds = [r.choice(['hi+', 'lo-']) for _ in range(n)]
        vals = [self.value(fmt, rounding, kind if kinds is None else kinds[i]) for i in range(n)]
        k = r.random()
        if k < 0.45:
            pairs = [list(V.frac_to_pair(v)) for v in vals]
            allint = all(v.denominator == 1 for v in vals)
            if allint and r.random() < 0.5:
                dt = 'int64'
            elif all(abs(p[0]).bit_length() <= 24 and -100 < p[1] < 100 for p in pairs) and r.random() < 0.2:
                dt = 'float32'
            else:
                dt = 'float64'
            if r.random() < 0.1:
                xdt = self.exotic_dtype(vals)
                if xdt is not None:
                    return ['a', xdt, list(shape), pairs]
            if r.random() < 0.06 and all(V.float_ok(v) and abs(v) < (1 << 62) for v in vals):
                # an array of Python numbers (dtype=object): ints and floats side by side
                return ['a', 'object', list(shape), pairs]
            if r.random() < 0.12:
                # the same numbers in another memory layout (what a caller's slice or transpose looks like)
                return ['a', dt, list(shape), pairs, r.choice(['F', 'S', 'S', 'R'])]
            return ['a', dt, list(shape), pairs]

        homog = None
        if r.random() < 0.15:
            # a list whose elements are all NumPy scalars of one (narrow) type: np.array() of it keeps that type
            pr = [V.frac_to_pair(v) for v in vals]
            if all(abs(p_[0]).bit_length() <= 24 and -100 < p_[1] < 100 for p_ in pr) and r.random() < 0.6:
                homog = 'float32'
            else:
                homog = self.exotic_dtype(vals)

        def nest(flat, sh, kindc):
            if len(sh) == 1 and homog is not None:
                return [kindc, [['n', homog] + list(V.frac_to_pair(v)) for v in flat]]
            if len(sh) == 1:
                return [kindc, [self.scalar_spec(v, allow_str=False) for v in flat]]
            step = len(flat) // sh[0]
            return [kindc, [nest(flat[i * step:(i + 1) * step], sh[1:], kindc) for i in range(sh[0])]]
        return nest(vals, list(shape), 'l' if k < 0.85 else 't')

    def val_for(self, fmt, rounding='trunc', shape=None, kind=None):
        if shape is None and self.rng.random() < self.p.p_array:
            shape = self.shape()
        if shape:
            return self.array_spec(fmt, shape, rounding, kind)
        return self.scalar_spec(self.value(fmt, rounding, kind))

    def val_like_obj(self, o, keep_shape=True, kind=None):
        fmt = (bool(o.signed), o.n_word, o.n_frac)
        sh = tuple(np.asarray(o.val).shape)
        if sh and keep_shape and self.rng.random() < 0.8:
            return self.array_spec(fmt, sh, o.config.rounding, kind)
        if sh and self.rng.random() < 0.5:
            return self.array_spec(fmt, self.shape(), o.config.rounding, kind)
        return self.scalar_spec(self.value(fmt, o.config.rounding, kind))

    def modes(self, full=False):
        r = self.rng
        kw = {}
        if full or r.random() < 0.6:
            kw['rounding'] = r.choice(ROUNDINGS)
        if full or r.random() < 0.6:
            kw['overflow'] = r.choice(OVERFLOWS)
        if not full:
            if r.random() < 0.2:
                kw['shifting'] = r.choice(['expand', 'trunc', 'keep'])
            if r.random() < 0.2:
                kw['op_sizing'] = r.choice(SIZINGS)
            if r.random() < 0.15:
                kw['const_op_sizing'] = r.choice(SIZINGS)
            if r.random() < 0.15:
                kw['op_method'] = r.choice(['raw', 'repr'])
            if r.random() < 0.1:
                kw['op_input_size'] = r.choice(['same', 'best'])
            if r.random() < 0.1:
                kw['dtype_notation'] = r.choice(['fxp', 'Q'])
            if r.random() < 0.08:
                kw['array_op_method'] = r.choice(['raw', 'repr'])
        return kw

    # ------------------------------------------------------------------ slot picking
    def cands(self, pred=None):
        w = self.w
        c = w.live(w.inflight())
        if pred is not None:
            c = [i for i in c if pred(w.slots[i].obj)]
        return c

    def pick(self, pred=None, prefer=None):
        """(reference integer, slot index) of a live slot satisfying pred, or (None, None).
        The reference is the position among ALL candidates (what engine.ref resolves)."""
        allc = self.cands()
        c = allc if pred is None else [i for i in allc if pred(self.w.slots[i].obj)]
        if not c:
            return None, None
        if self.force is not None:
            f, self.force = self.force, None
            if f in c:
                return allc.index(f), f
        if self.hot and self.p.get('p_hot') and self.rng.random() < self.p['p_hot']:
            hc = [i for i in self.hot if i in c]
            if hc:
                i = hc[0] if self.rng.random() < 0.7 else self.rng.choice(hc)
                return allc.index(i), i
        if prefer is not None:
            pc = [i for i in c if prefer(self.w.slots[i].obj)]
            if pc and self.rng.random() < 0.8:
                i = self.rng.choice(pc)
                return allc.index(i), i
        i = self.rng.choice(c)
        return allc.index(i), i

    @staticmethod
    def is_arr(o):
        return np.asarray(o.val).ndim > 0

    @staticmethod
    def is_real(o):
        return np.asarray(o.val).dtype.kind in 'iuO' and o.vdtype != complex

    def index_for(self, shape, allow_bad=False):
        r = self.rng
        if allow_bad and shape and r.random() < 0.5:
            return shape[0] + r.randint(0, 2)
        if len(shape) == 0:
            return r.choice([['el'], ['el'], []])       # what a 0-d value accepts: x[...] (a view) and x[()]
        if any(n == 0 for n in shape):
            return ['sl', None, None, None]
        if r.random() < 0.12:
            # an Ellipsis: with every axis indexed by an integer the result is a 0-d VIEW, not a copy
            nd = len(shape) if r.random() < 0.7 else r.randint(0, len(shape) - 1)
            ix = [r.randrange(-shape[ax], shape[ax]) for ax in range(nd)]
            ix.insert(r.randint(0, len(ix)), ['el'])
            if nd < len(shape) and ix[-1] == ['el'] and r.random() < 0.5 and len(shape) - nd >= 1:
                ix.append(r.randrange(shape[-1]))       # x[..., j]
            return ix if len(ix) > 1 else ix[0]
        if self.p.get('adv_index') and r.random() < 0.14:
            # advanced indexes: a list / integer array of distinct positions along the first axis
            # (alone, or with a basic index on the second), or a boolean mask (first axis or full shape)
            n0 = shape[0]
            q = r.random()
            if q < 0.55:
                picks = r.sample(range(n0), r.randint(1, n0))
                if r.random() < 0.3:
                    picks = [p - n0 if r.random() < 0.5 else p for p in picks]
                first = [r.choice(['fx', 'fx', 'ia']), picks]
                if len(shape) >= 2 and r.random() < 0.4:
                    second = r.randrange(shape[1]) if r.random() < 0.5 else ['sl', None, None, r.choice([None, -1])]
                    return [first, second]
                return first
            if len(shape) >= 2 and q < 0.72:
                # a basic index BEFORE the advanced one: x[:, [0, 2]], x[1:, [1]], x[..., [0, 2]], x[:, mask]
                n1 = shape[1]
                if r.random() < 0.7:
                    second = [r.choice(['fx', 'fx', 'ia']), r.sample(range(n1), r.randint(1, n1))]
                else:
                    m1 = [r.random() < 0.5 for _ in range(n1)]
                    if not any(m1):
                        m1[r.randrange(n1)] = True
                    second = ['bm', m1]
                first = r.choice([['sl', None, None, None], ['sl', None, None, None], ['el'],
                                  ['sl', r.randrange(n0), None, None], ['sl', None, None, -1]])
                return [first, second]
            if q < 0.8 or len(shape) < 2:
                m = [r.random() < 0.5 for _ in range(n0)]
                if not any(m):
                    m[r.randrange(n0)] = True
                return ['bm', m]
            m = [[r.random() < 0.5 for _ in range(shape[1])] for _ in range(n0)]
            if len(shape) == 2:
                if not any(any(row) for row in m):
                    m[0][0] = True
                return ['bm', m]
            return [['sl', None, None, None], ['fx', r.sample(range(shape[1]), r.randint(1, shape[1]))]]
        ix = []
        nd = r.randint(1, len(shape))
        for ax in range(nd):
            n = shape[ax]
            k = r.random()
            if k < 0.55:
                ix.append(r.randrange(-n, n))
            elif k < 0.8:
                a = r.randrange(0, n)
                b = r.randint(a + 1, n)
                if r.random() < 0.06:
                    a, b = r.choice([(a, a), (n, None), (n, n + 1)])      # a slice that selects nothing
                ix.append(['sl', a, b, None])
            elif k < 0.9:
                ix.append(['sl', None, None, r.choice([1, 2, -1])])
            else:
                ix.append(['sl', None, None, None])
        if len(ix) == 1:
            return ix[0]
        return ix

    # ------------------------------------------------------------------ op generators
    def g_new(self, fmt=None, arr=None, full_modes=False, ncb=None, val_kind=None):
        r = self.rng
        fmt = fmt or self.fmt()
        kw = self.modes(full_modes)
        rounding = kw.get('rounding', 'trunc')
        shape = None
        if arr is True or (arr is None and r.random() < self.p.p_array):
            shape = self.shape()
        val = None
        if r.random() < 0.9:
            val = self.val_for(fmt, rounding, shape, val_kind) if shape else \
                self.scalar_spec(self.value(fmt, rounding, val_kind))
        if 'F2' in self.p.faults and val_kind is None and r.random() < 0.03:
            # fault F2: a value the constructor cannot take (rejected half-way through the construction,
            # possibly under a template or with like= / config= sources that must stay untouched)
            val = ['x', r.choice(['dict', 'set', 'str', 'ragged'])]
        op = {'op': 'new', 'val': val, 'fmt': list(fmt), 'kw': kw}
        if ncb is None:
            ncb = r.choice([1, 1, 2]) if r.random() < self.p.p_cb else 0
        if ncb:
            op['ncb'] = ncb
            if r.random() < 0.25:
                op['cb_sites'] = [self.some_sites() if r.random() < 0.7 else None for _ in range(ncb)]
            elif self.p.prop == 'C04' and 'F8' in self.p.faults and shape is None and r.random() < 0.25 and \
                    'n_int' not in op and 'dtype' not in op:
                # F8 at construction time: the handler writes into the object from inside the constructor
                op['ctor_write'] = self.scalar_spec(self.value(fmt, rounding, r.choice(['hi+', 'lo-', 'inexact', 'far'])))
        if r.random() < 0.06 and self.w.template is None:
            # the same format given through n_int and one other size
            s, nw, nf = fmt
            op['n_int'] = nw - nf - (1 if s else 0)
            op['fmt'] = [s] + ([nw, None] if r.random() < 0.5 else [None, nf])
            if r.random() < 0.3:
                # over-determined: both sizes AND an n_int that contradicts them (the sizes win)
                op['fmt'] = [s, nw, nf]
                op['n_int'] = op['n_int'] + r.choice([-3, -1, 1, 2, 5])
        elif r.random() < 0.1 and val is not None and 'strings' in self.p.groups:
            s, nw, nf = fmt
            op['dtype'] = self.recase('fxp-%s%d/%d' % ('s' if s else 'u', nw, nf))
        elif self.p.prop == 'C02' and r.random() < 0.08 and fmt[1] <= 24:
            # thin slice of affinely scaled objects (limits mapped through scale and bias)
            op['kw'] = dict(op['kw'], scale=r.choice([2, 0.5, 4, 0.25, 1]), bias=r.choice([0, 1, -2, 0.5, 8]))
        return op

    def g_new_allcodes(self):
        """A source register holding EVERY code of a tiny format (n_word <= 6), stored raw; each
        later conversion hop from it exercises the whole source format at once."""
        r = self.rng
        nw = r.randint(1, 6)
        signed = r.random() < 0.6
        nf = r.randint(-2, nw + 2) if r.random() < 0.4 else r.randint(0, nw)
        lo, hi = Q.bounds(signed, nw)
        codes = list(range(lo, hi + 1))
        if r.random() < 0.3:
            r.shuffle(codes)
        return {'op': 'new', 'val': ['a', 'int64', [len(codes)], [[c, 0] for c in codes]],
                'fmt': [signed, nw, nf], 'kw': self.modes(full=True), 'raw': True}

    def g_new_infer(self):
        """Constructor with sizes left to inference."""
        r = self.rng
        fmt = self.fmt()
        if fmt[1] > 40:
            fmt[1] = 20
            fmt[2] = min(fmt[2], 20)
        val = self.val_for(fmt, 'trunc', kind=r.choice(['exact', 'inexact', 'exact', 'inexact', 'zero', 'pow2', 'pow2',
                                                          'near_hi', 'near_lo', 'hi', 'lo']))
        if r.random() < 0.15:
            # all elements negative / one sign only / powers of two and their neighbours
            k = r.randint(0, 20)
            base = Fraction(1 << k) if r.random() < 0.5 else Fraction(1, 1 << k)
            vs = [r.choice([-1, -1, 1]) * (base + r.choice([0, 0, Fraction(1, 1 << r.randint(1, 12)), -Fraction(1, 1 << r.randint(1, 12))]))
                  for _ in range(r.randint(1, 3))]
            if r.random() < 0.5:
                vs = [-abs(v) for v in vs]
            val = ['l', [self.scalar_spec(v, allow_str=False) for v in vs]] if len(vs) > 1 or r.random() < 0.5 \
                else self.scalar_spec(vs[0], allow_str=False)
        part = r.choice([[None, None, None], [fmt[0], None, None], [fmt[0], fmt[1], None],
                         [fmt[0], None, max(0, fmt[2])], [None, None, max(0, fmt[2])], [None, fmt[1], None]])
        kw = self.modes()
        if r.random() < 0.25:
            kw['n_word_max'] = r.choice([64, 48, 32, 16, 8])
        if r.random() < 0.2:
            kw['max_error'] = r.choice([1e-6, 2.0 ** -20, 2.0 ** -4, 0.5])
        return {'op': 'new', 'val': val, 'fmt': part, 'kw': kw}

    def g_new_from(self, src=None, fmt=None):
        r = self.rng
        k, i = (src, None) if src is not None else self.pick(self.is_real)
        if k is None:
            return self.g_new()
        o = self.w.slots[self.cands(self.is_real)[k]].obj if i is None else self.w.slots[i].obj
        fmt = fmt or self.clamp_fmt(self.near_fmt([bool(o.signed), o.n_word, o.n_frac]))
        op = {'op': 'new_from', 'src': k, 'fmt': fmt, 'kw': self.modes(full=True)}
        if r.random() < 0.1:
            # the format given through n_int and one other size
            op['n_int'] = fmt[1] - fmt[2] - (1 if fmt[0] else 0)
            op['fmt'] = [fmt[0] if r.random() < 0.8 else None] + ([fmt[1], None] if r.random() < 0.5 else [None, fmt[2]])
            if op['fmt'][0] is None and not fmt[0]:
                op['n_int'] = fmt[1] - fmt[2] - 1        # (no sign given: the constructor's default is signed)
            return op
        if r.random() < 0.25:
            if r.random() < 0.5 or fmt[1] - fmt[2] < 0:
                op['dtype'] = self.recase('fxp-%s%d/%d' % ('s' if fmt[0] else 'u', fmt[1], fmt[2]))
            else:
                op['dtype'] = '%s%d.%d' % (r.choice(['Q', 'S', 'q', 's']) if fmt[0] else r.choice(['UQ', 'U', 'QU', 'qu', 'Uq', 'u']),
                                           fmt[1] - fmt[2], fmt[2])
        return op

    def g_new_like(self):
        r = self.rng
        kl, il = self.pick()
        if kl is None:
            return self.g_new()
        lo = self.w.slots[il].obj
        op = {'op': 'new_like', 'like': kl}
        k = r.random()
        if k < 0.45:
            ks, _ = self.pick(self.is_real)
            op['src'] = {'slot': ks}
        elif k < 0.9:
            op['src'] = {'val': self.val_for((bool(lo.signed), lo.n_word, lo.n_frac), lo.config.rounding)}
        else:
            op['src'] = None
        if r.random() < 0.2:
            op['fmt'] = self.partial_override(lo)
        elif r.random() < 0.06:
            self.n_int_override(lo, op)
        return op

    def n_int_override(self, lo, op):
        """like= with the format override given through n_int and one other size (and maybe a sign)."""
        r = self.rng
        f = self.clamp_fmt(self.near_fmt([bool(lo.signed), lo.n_word, lo.n_frac]))
        sg = f[0] if r.random() < 0.6 else None
        rs = bool(lo.signed) if sg is None else sg
        op['n_int'] = f[1] - f[2] - (1 if rs else 0)
        op['fmt'] = [sg] + ([f[1], None] if r.random() < 0.5 else [None, f[2]])
        return op

    def partial_override(self, lo):
        """A format override naming any non-empty subset of (signed, n_word, n_frac)."""
        r = self.rng
        f = self.clamp_fmt(self.near_fmt([bool(lo.signed), lo.n_word, lo.n_frac]))
        if r.random() < 0.3:
            f[0] = not bool(lo.signed)
        mask = r.choice([(1, 0, 0), (0, 1, 0), (0, 0, 1), (1, 1, 0), (1, 0, 1), (0, 1, 1), (1, 1, 1)])
        return [f[k] if mask[k] else None for k in range(3)]

    def g_new_tplkw(self):
        kt, it = self.pick()
        if kt is None:
            return self.g_new()
        to = self.w.slots[it].obj
        val = self.val_for((bool(to.signed), to.n_word, to.n_frac), to.config.rounding) \
            if self.rng.random() < 0.85 else None
        return {'op': 'new_tplkw', 'tpl': kt, 'val': val}

    def g_new_cont(self):
        if not self.w.containers:
            return self.g_cont_new()
        return {'op': 'new_cont', 'c': self.rng.randrange(len(self.w.containers)),
                'fmt': self.fmt() if self.rng.random() < 0.8 else [None, None, None], 'kw': self.modes()}

    def g_store_cont(self):
        r = self.rng
        if not self.w.containers:
            return self.g_cont_new()
        c = r.randrange(len(self.w.containers))
        via = r.choice(['call', 'set_val', 'raw', 'setitem'])
        if via == 'setitem':
            k, i = self.pick(lambda o: self.is_arr(o) and self.is_real(o))
            if k is None:
                via = 'call'
            else:
                sh = tuple(np.asarray(self.w.slots[i].obj.val).shape)
                return {'op': 'store_cont', 'slot': k, 'c': c, 'via': via, 'index': self.index_for(sh)}
        k, _ = self.pick(self.is_real)
        if k is None:
            return self.g_new()
        return {'op': 'store_cont', 'slot': k, 'c': c, 'via': via}

    def g_cont_new(self):
        r = self.rng
        fmt = self.fmt()
        if fmt[1] > 30:
            fmt = [fmt[0], 16, min(fmt[2], 16)]
        k = r.random()
        if k < 0.4 and 'strings' in self.p.groups:
            # list / tuple of bin or hex literals
            nw = max(2, min(fmt[1], 12))
            n = r.randint(1, 4)
            kind = r.choice(['b', 'h'])
            items = []
            for _ in range(n):
                if kind == 'b':
                    items.append(['b', ''.join(r.choice('01') for _ in range(r.randint(2, nw)))])
                else:
                    items.append(['h', '%X' % r.randrange(1 << nw)])
            spec = [r.choice(['l', 'l', 't']), items]
            if kind == 'b' and r.random() < 0.35:
                # the same binary literals as a NumPy array (dtype object or str), with or without the prefix
                sh = [n] if n < 4 or r.random() < 0.5 else [2, 2]
                return {'op': 'cont_new', 'spec': ['sa', r.choice(['O', 'O', 'U']), sh, [it[1] for it in items],
                                                   r.random() < 0.5]}
            q = r.random()
            if q < 0.2:
                spec = ['l', [spec, spec]]
            elif q < 0.35:
                spec = ['l', [['l', [spec, spec]], ['l', [spec, spec]]]]     # three levels deep
            return {'op': 'cont_new', 'spec': spec}
        spec = self.array_spec(fmt, self.shape())
        if r.random() < 0.2:
            # an int64 array of in-range codes (what a caller would pass with raw=True)
            lo, hi = Q.bounds(fmt[0], fmt[1])
            sh = self.shape()
            spec = ['a', 'int64', list(sh), [[r.randint(lo, hi), 0] for _ in range(int(np.prod(sh)))]]
        if r.random() < 0.25 and 'strings' in self.p.groups and spec[0] in ('l', 't'):
            # decimal strings inside the list
            def to_s(sp):
                if sp[0] in ('l', 't'):
                    return [sp[0], [to_s(x) for x in sp[1]]]
                sh, fl = V.exact(sp)
                num, exp = V.frac_to_pair(fl[0])
                return ['s', num, exp] if -exp <= 10 else sp
            spec = to_s(spec)
        return {'op': 'cont_new', 'spec': spec}

    def g_cfg_new(self):
        r = self.rng
        op = {'op': 'cfg_new', 'kw': self.modes()}
        if r.random() < 0.6:
            k, _ = self.pick(self.is_real)
            if k is not None:
                op['reg'] = k
                op['field'] = r.choice(REG_FIELDS)
        return op

    def g_cfg_mutate(self):
        if not self.w.configs:
            return self.g_cfg_new()
        f = self.rng.choice(['overflow', 'rounding', 'shifting', 'op_sizing', 'op_method'])
        return {'op': 'cfg_mutate', 'c': self.rng.randrange(len(self.w.configs)), 'field': f,
                'value': self.rng.choice(VALID[f])}

    def g_cfg_template(self):
        if self.w.cfg_template is not None and self.rng.random() < 0.6:
            return {'op': 'cfg_template', 'c': None}
        if not self.w.configs:
            return self.g_cfg_new()
        return {'op': 'cfg_template', 'c': self.rng.randrange(len(self.w.configs))}

    def g_new_cfg(self):
        if not self.w.configs:
            return self.g_cfg_new()
        op = self.g_new()
        op.pop('dtype', None)
        if self.rng.random() < 0.5:
            op['kw'] = {}             # else: keyword overrides on top of the passed Config
        else:
            op['kw'] = {k: v for k, v in op['kw'].items() if k not in ('scale', 'bias')}
        if self.rng.random() < 0.3:
            k, _ = self.pick()
            if k is not None:
                op['cfg_slot'] = k    # config=<the Config of a live object>
                return op
        op['cfg'] = self.rng.randrange(len(self.w.configs))
        if self.rng.random() < 0.15:
            op['cfg_as_template'] = True      # the Config handed over as template= (an argument type nobody expects)
        return op

    def g_export(self):
        k, _ = self.pick(self.is_real, prefer=lambda o: o.n_frac == 0)
        if k is None:
            return self.g_new()
        return {'op': 'export', 'slot': k, 'how': self.rng.choice(['array', 'array', 'array_copy', 'asarray_copy'])}

    def g_frombin_cont(self):
        r = self.rng
        if not self.w.containers:
            return self.g_cont_new()
        fmt = self.fmt()
        op = {'op': 'frombin_cont', 'c': r.randrange(len(self.w.containers)),
              'fmt': [fmt[0], max(fmt[1], 12), min(fmt[2], 8)], 'via': r.choice(['fn', 'fn', 'method'])}
        if op['via'] == 'method':
            k, _ = self.pick(self.is_real)
            if k is None:
                op['via'] = 'fn'
            else:
                op['slot'] = k
        return op

    def g_cont_mutate(self):
        if not self.w.containers:
            return self.g_cont_new()
        c = self.rng.randrange(len(self.w.containers))
        return {'op': 'cont_mutate', 'c': c, 'k': self.rng.randrange(0, 9),
                'val': self.scalar_spec(Fraction(self.rng.randint(-20, 20), self.rng.choice([1, 2, 4])),
                                        allow_str=False)}

    def g_deepcopy(self):
        k, _ = self.pick()
        if k is None:
            return self.g_new()
        return {'op': 'deepcopy', 'slot': k, 'via': self.rng.choice(['method', 'copy'])}

    def g_like(self):
        ka, _ = self.pick(self.is_real)
        kt, _ = self.pick()
        if ka is None or kt is None:
            return self.g_new()
        return {'op': 'like', 'slot': ka, 'tpl': kt}

    def g_unary(self):
        k, _ = self.pick(self.is_real)
        if k is None:
            return self.g_new()
        return {'op': 'unary', 'slot': k, 'f': self.rng.choice(['neg', 'pos', 'abs'])}

    def small(self, o):
        return o.n_word <= 26

    def g_arith(self, fs=None, judged=False):
        r = self.rng
        ka, ia = self.pick(self.is_real, prefer=self.small)
        if ka is None:
            return self.g_new()
        ao = self.w.slots[ia].obj
        f = r.choice(fs or ['add', 'sub', 'mul', 'add', 'sub', 'mul', 'truediv', 'floordiv', 'mod'])
        op = {'op': 'arith', 'f': f, 'a': ka}
        ash = tuple(np.asarray(ao.val).shape)

        def compat(o):
            sh = tuple(np.asarray(o.val).shape)
            if not self.is_real(o):
                return False
            if sh == ash or not sh or not ash:
                return True
            try:
                np.broadcast_shapes(sh, ash)       # (3,) with (2, 3), (1, 3) with (3, 3), (1,) with anything
                return True
            except ValueError:
                return False
        if r.random() < 0.65:
            if 'F2' in self.p.faults and r.random() < 0.08:
                # fault F2: operands that do not broadcast - the operation is rejected before anything
                # can be stored (into whatever register is configured or named)
                compat = self.is_real
            kb, ib = self.pick(compat, prefer=self.small)
            if kb is None:
                return self.g_new()
            # reference must be resolvable by engine.ref without predicate: recompute
            kb = self.cands().index(ib)
            op['b'] = {'slot': kb}
        else:
            fmt = (bool(ao.signed), ao.n_word, ao.n_frac)
            v = self.value(fmt, kind=r.choice(['exact', 'inexact', 'near_hi', 'zero']))
            if f in ('truediv', 'floordiv', 'mod') and v == 0:
                v = Fraction(1)
            sp = self.scalar_spec(v, allow_str=False)
            if sp[0] == 'n' and r.random() < 0.5:
                sp = ['f', sp[2], sp[3]]
            op['b'] = {'val': sp}
        op['a'] = self.cands().index(ia)
        if 'F2' in self.p.faults and r.random() < 0.05:
            # fault F2: a constant operand the library cannot convert (rejected while the operand is
            # being prepared, i.e. in the operator layer, before the function wrappers are reached)
            op['b'] = {'val': ['x', r.choice(['dict', 'set', 'str', 'str', 'ragged'])]}
            op['route'] = r.choice(['op', 'op', 'rop', 'fn', 'np'])
            return op
        if not judged and self.w.containers and 'containers' in self.p.groups and r.random() < 0.12:
            op['b'] = {'cont': r.randrange(len(self.w.containers))}
        k = r.random()
        if k < 0.55:
            op['route'] = 'op'
        elif k < 0.65 and ('cont' in op['b'] or ('val' in op['b'] and op['b']['val'][0] in ('i', 'f'))):
            op['route'] = 'rop'
        elif k < 0.9:
            op['route'] = 'fn'
            if 'slot' not in op['b'] and r.random() < 0.25:
                op['swap'] = True
            if r.random() < 0.7:
                op['sizing'] = r.choice(SIZINGS if not judged else ['optimal', 'same', 'largest', 'smallest'])
            if r.random() < 0.4:
                op['method'] = r.choice(['raw', 'repr'])
            q = r.random()
            if q < 0.25:
                ko, _ = self.pick(self.is_real)
                op['out'] = ko
            elif q < 0.4:
                ko, _ = self.pick(self.is_real)
                op['out_like'] = ko
        else:
            op['route'] = 'np'
            if r.random() < 0.2:
                ko, _ = self.pick(self.is_real)
                op['out'] = ko
        return op

    def g_bitwise(self):
        r = self.rng
        ka, ia = self.pick(self.is_real)
        if ka is None:
            return self.g_new()
        ao = self.w.slots[ia].obj
        f = r.choice(['invert', 'and', 'or', 'xor'])
        op = {'op': 'bitwise', 'f': f, 'a': self.cands().index(ia)}
        if f != 'invert':
            ash = tuple(np.asarray(ao.val).shape)
            if r.random() < 0.5:
                same_w = (lambda o: self.is_real(o) and o.n_word == ao.n_word and
                          tuple(np.asarray(o.val).shape) == ash)
                kb, ib = self.pick(same_w if r.random() < 0.75 or 'F2' not in self.p.faults else self.is_real)
                if kb is None:
                    op['b'] = {'int': r.randrange(1 << min(ao.n_word, 40))}
                else:
                    op['b'] = {'slot': self.cands().index(ib)}
            else:
                op['b'] = {'int': r.randrange(1 << min(ao.n_word, 40))}
                op['reflected'] = r.random() < 0.3
                if r.random() < 0.35:
                    # constants of other kinds: negative, wider than the word, NumPy integers of the
                    # storage types (int64 / uint64) and of narrow ones, 0-d arrays
                    nw = max(1, min(ao.n_word, 60))
                    mag = r.choice([r.randrange(1 << nw), (1 << nw) + r.randrange(1 << nw), (1 << (nw - 1)),
                                    (1 << nw) - 1, r.randrange(1 << min(nw + 3, 62))])
                    sign = r.choice([1, 1, -1])
                    q = r.random()
                    if q < 0.3:
                        op['b'] = {'val': ['i', sign * mag]}
                    elif q < 0.65:
                        dt = r.choice(['int64', 'int64', 'uint64', 'int32', 'uint8', 'int8', 'int16'])
                        info = np.iinfo(dt)
                        v = sign * mag
                        if not (info.min <= v <= info.max):
                            v = r.choice([int(info.max), int(info.min), int(info.max) // 2 + 1])
                        op['b'] = {'val': ['n', dt, v, 0]}
                    elif q < 0.8:
                        dt = r.choice(['int64', 'uint64'])
                        v = mag if dt == 'uint64' else sign * mag
                        op['b'] = {'val': ['a', dt, [], [[v, 0]]]}
                    else:
                        op['b'] = {'val': ['i', sign * ((1 << r.randint(62, 80)) + r.randrange(1 << 20))]}
        return op

    @staticmethod
    def top_bit(o):
        """Bit length of the largest magnitude among the codes (0 if not plain integers)."""
        try:
            flat = np.asarray(o.val).ravel().tolist()
            return max([abs(c).bit_length() for c in flat if isinstance(c, int)] or [0])
        except Exception:
            return 0

    def g_shift(self):
        r = self.rng
        q = r.random()
        if q < 0.3:
            # single-bit codes near the top of a wide word: where magnitude estimates are tight
            prefer = lambda o: self.top_bit(o) >= 40 and bin(int(np.max(np.abs(np.asarray(o.val).astype(object))))).count('1') == 1
        elif q < 0.65:
            prefer = lambda o: o.n_word <= 40
        else:
            prefer = None
        k, i = self.pick(self.is_real, prefer=prefer)
        if k is None:
            return self.g_new()
        o = self.w.slots[i].obj
        maxn = min(o.n_word + 2, 61 - min(o.n_word, 52)) if o.n_word < 60 else 2
        d = r.choice('lr')
        n = r.randint(0, maxn)
        if d == 'l' and r.random() < 0.5:
            # aim the shifted top bit at a word boundary (own word, the 52-bit domain limit)
            bl = self.top_bit(o)
            sb = 1 if o.signed else 0
            aims = [t - bl for t in (o.n_word - sb - 1, o.n_word - sb, o.n_word - sb + 1, 51 - sb, 52 - sb, 53 - sb)
                    if 0 <= t - bl <= maxn]
            if aims:
                n = r.choice(aims)
        if r.random() < 0.06:
            n = -r.randint(1, 4)        # a negative count (the pinned code gives 0 / -1 or rejects it)
        return {'op': 'shift', 'slot': self.cands().index(i), 'dir': d, 'n': n}

    @staticmethod
    def is_nd(o):
        return isinstance(o.val, np.ndarray)

    def g_getitem(self):
        k, i = self.pick(self.is_nd if self.rng.random() < 0.15 else self.is_arr)
        if k is None:
            return self.g_new(arr=True)
        sh = tuple(np.asarray(self.w.slots[i].obj.val).shape)
        return {'op': 'getitem', 'slot': k, 'index': self.index_for(sh, allow_bad='F2' in self.p.faults and
                                                                    self.rng.random() < 0.1)}

    def g_iterate(self):
        k, i = self.pick(lambda o: isinstance(o.val, np.ndarray) and o.val.ndim > 0 and o.val.shape[0] > 0)
        if k is None:
            return self.g_new(arr=True)
        n = int(np.asarray(self.w.slots[i].obj.val).shape[0])
        keep = sorted(set(self.rng.randrange(n) for _ in range(self.rng.choice([1, 2, 2, 3]))))
        return {'op': 'iterate', 'slot': k, 'how': self.rng.choice(['list', 'for', 'next']), 'keep': keep}

    def g_reduce(self):
        r = self.rng
        k, i = self.pick(lambda o: self.is_arr(o) and self.is_real(o), prefer=lambda o: o.n_word <= 12)
        if k is None:
            return self.g_new(arr=True)
        o = self.w.slots[i].obj
        nd = np.asarray(o.val).ndim
        fs = ['sum', 'cumsum', 'max', 'min', 'sort', 'transpose', 'clip']
        if o.n_word <= 8:
            fs += ['prod', 'cumprod']
        if nd == 2:
            fs += ['diagonal', 'trace', 'dot']
        f = r.choice(fs)
        op = {'op': 'reduce', 'f': f, 'a': k, 'route': r.choice(['method', 'np', 'fn'])}
        if f == 'sort' and op['route'] == 'method':
            op['route'] = 'np'
        if f in ('sum', 'cumsum', 'max', 'min', 'sort', 'prod', 'cumprod'):
            op['axis'] = r.choice([None, 0, nd - 1]) if f != 'sort' else r.choice([0, -1])
        if f in ('max', 'min') and r.random() < 0.2:
            lo_, hi_ = Q.bounds(bool(o.signed), min(o.n_word, 60))
            op['initial'] = r.choice([hi_ + r.randint(1, 1000), lo_ - r.randint(1, 1000), r.randint(lo_, hi_), 0])
        if f == 'dot':
            sh = np.asarray(o.val).shape
            kb, ib = self.pick(lambda q: self.is_real(q) and np.asarray(q.val).ndim >= 1 and
                               np.asarray(q.val).shape[0] == sh[-1] and q.n_word <= 16)
            if kb is None:
                op['f'] = 'sum'
            else:
                op['b'] = kb
        if f == 'clip':
            op['lo'], op['hi'] = r.choice([(0, 1), (-1, 1), (-2.5, 0.5), (1, 3)])
            if self.w.containers and 'containers' in self.p.groups and r.random() < 0.5:
                op[r.choice(['lo_c', 'hi_c'])] = r.randrange(len(self.w.containers))
        if op['route'] == 'method' and r.random() < 0.3:
            # the method form with the wrappers' keywords: x.sum(out=r), x.max(out_like=t, sizing='same')
            op['kw_on_method'] = True
            q = r.random()
            if q < 0.45:
                ko, _ = self.pick(self.is_real)
                op['out'] = ko
            elif q < 0.75:
                ko, _ = self.pick(self.is_real)
                op['out_like'] = ko
            if r.random() < 0.4:
                op['sizing'] = r.choice(SIZINGS)
            if r.random() < 0.3:
                op['method'] = r.choice(['raw', 'repr'])
        if op['route'] == 'fn':
            if r.random() < 0.5:
                op['sizing'] = r.choice(SIZINGS)
            if r.random() < 0.35:
                op['method'] = r.choice(['raw', 'repr', 'repr'])
            q = r.random()
            if q < 0.2:
                ko, _ = self.pick(self.is_real)
                op['out'] = ko
            elif q < 0.45:
                ko, _ = self.pick(self.is_real)
                op['out_like'] = ko
            if op['f'] == 'sum' and 'out_like' not in op and r.random() < 0.4:
                op['legacy'] = r.choice(['sizes', 'sizes', 'dtype'])      # fxp_sum, the older spelling
                if 'out' not in op and r.random() < 0.5:
                    # ... delivering into a register that can hold the sum (wider, same fraction)
                    ko, _ = self.pick(lambda q_: self.is_real(q_) and q_.n_frac >= o.n_frac and
                                      q_.n_word - q_.n_frac >= o.n_word - o.n_frac + 2 and np.ndim(q_.val) == 0)
                    if ko is not None:
                        op['out'] = ko
        return op

    def g_npfunc(self):
        k, _ = self.pick(self.is_real, prefer=lambda o: o.n_word <= 24)
        if k is None:
            return self.g_new()
        f = self.rng.choice(['negative', 'absolute', 'square', 'floor', 'sign', 'mean', 'std', 'var',
                             'maximum', 'minimum', 'fmod'])
        op = {'op': 'npfunc', 'slot': k, 'f': f}
        if f in ('mean', 'std', 'var') and self.rng.random() < 0.5:
            # ... preferably on an object that names a template for its results (config.op_out_like)
            k2, _ = self.pick(lambda o: self.is_real(o) and o.config.op_out_like is not None)
            if k2 is not None:
                op['slot'] = k2
                op['route'] = 'method'
                return op
        if f in ('maximum', 'minimum', 'fmod'):
            kb, _ = self.pick(self.is_real, prefer=lambda o: o.n_word <= 24)
            op['b'] = kb if kb is not None else k
            op['swap'] = self.rng.random() < 0.5
        if f in ('mean', 'std', 'var') and self.rng.random() < 0.6:
            op['route'] = 'method'
        return op

    def g_shallow(self, fs=('copy', 'T', 'flatten', 'fxp_like', 'reshape')):
        k, _ = self.pick()
        if k is None:
            return self.g_new()
        f = self.rng.choice(list(fs))
        op = {'op': 'shallow', 'slot': k, 'f': f}
        if f == 'fxp_like' and self.rng.random() < 0.7:
            o = self.w.slots[self.cands()[k]].obj
            op['val'] = self.val_like_obj(o)
        return op

    # -- in-place
    def g_call(self, via=None, kind=None, pred=None):
        k, i = self.pick(pred or self.is_real)
        if k is None:
            return self.g_new()
        o = self.w.slots[i].obj
        k = self.cands().index(i)
        if 'F2' in self.p.faults and self.rng.random() < 0.04:
            return {'op': 'call', 'slot': k, 'val': ['x', self.rng.choice(['dict', 'set'])],
                    'via': via or self.rng.choice(['call', 'set_val'])}
        return {'op': 'call', 'slot': k, 'val': self.val_like_obj(o, kind=kind),
                'via': via or self.rng.choice(['call', 'set_val'])}

    def g_set_raw(self):
        r = self.rng
        k, i = self.pick(self.is_real)
        if k is None:
            return self.g_new()
        o = self.w.slots[i].obj
        lo, hi = Q.bounds(bool(o.signed), o.n_word)
        sh = tuple(np.asarray(o.val).shape)

        def code():
            q = r.random()
            if q < 0.04:
                # needs Python ints; raw codes in [2**63, 2**64) are NOT generated: the library reads a
                # raw uint64 as int64 on purpose (wrapped differences of unsigned raws rely on it)
                return r.choice([1, -1]) * ((1 << r.randint(64, 70)) + r.randint(0, 5))
            if q < 0.6:
                return r.randint(lo, hi)
            if q < 0.8:
                return hi + r.randint(1, 3)
            return lo - r.randint(1, 3)
        if sh and r.random() < 0.7 and o.n_word <= 62:
            n = int(np.prod(sh))
            cs = [code() for _ in range(n)]
            if any(abs(c) >= (1 << 63) for c in cs):
                spec = ['l', [['i', c] for c in cs]] if len(sh) == 1 else ['i', cs[0]]
            else:
                spec = ['a', 'int64', list(sh), [[c, 0] for c in cs]]
        elif sh and len(sh) == 1 and r.random() < 0.7:
            spec = ['l', [['i', code()] for _ in range(sh[0])]]
        else:
            spec = ['i', code()]
        op = {'op': 'set_raw', 'slot': self.cands().index(i), 'val': spec}
        if r.random() < 0.12 and o.n_word <= 40:
            # a raw value computed in floating point (x.val * 0.5): not a whole number of codes
            c = r.randint(lo, hi) + Fraction(r.choice([1, 3, 5, 7]), 8)
            op['val'] = self.scalar_spec(c, allow_str=False) if not sh or r.random() < 0.5 else \
                ['a', 'float64', [int(np.prod(sh))], [list(V.frac_to_pair(c + j)) for j in range(int(np.prod(sh)))]] \
                if len(sh) == 1 else self.scalar_spec(c, allow_str=False)
        if r.random() < 0.15:
            op['vdtype'] = r.choice(['int', 'float', 'int64', 'float64'])
        return op

    def g_setitem(self, kind=None):
        r = self.rng
        zero_d = r.random() < 0.1
        k, i = self.pick(lambda o: (self.is_nd(o) if zero_d else self.is_arr(o)) and self.is_real(o),
                         prefer=(lambda o: np.ndim(o.val) == 0) if zero_d else None)
        if k is None:
            return self.g_new(arr=True)
        o = self.w.slots[i].obj
        sh = tuple(np.asarray(o.val).shape)
        bad = 'F2' in self.p.faults and r.random() < self.p.fault_rate and len(sh) > 0
        index = self.index_for(sh, allow_bad=bad)
        fmt = (bool(o.signed), o.n_word, o.n_frac)
        # value: scalar, or an array matching the region
        from .engine import decode_index
        try:
            rsh = np.empty(sh)[decode_index(index)].shape
        except Exception:
            rsh = ()
        if rsh and r.random() < 0.5:
            if bad and r.random() < 0.5:
                rsh = tuple(x + 1 for x in rsh)
            val = self.array_spec(fmt, rsh, o.config.rounding, kind)
        else:
            val = self.scalar_spec(self.value(fmt, o.config.rounding, kind))
        op = {'op': 'setitem', 'slot': k, 'index': index, 'val': val}
        if r.random() < 0.2:
            op['via'] = 'set_val'
        return op

    def g_setitem_chain(self):
        r = self.rng
        if r.random() < 0.2:
            # through a 0-d view: x[i, ...][()] = v, x[i, j, ...][...] = v, s[...][()] = v
            k, i = self.pick(lambda o: self.is_nd(o) and self.is_real(o))
            if k is not None:
                o = self.w.slots[i].obj
                sh = tuple(np.asarray(o.val).shape)
                ii = [r.randrange(-n, n) for n in sh]
                ii.insert(r.randint(0, len(ii)), ['el'])
                return {'op': 'setitem_chain', 'slot': k, 'i': ii if len(ii) > 1 else ii[0], 'j': r.choice([[], ['el']]),
                        'val': self.scalar_spec(self.value((bool(o.signed), o.n_word, o.n_frac), o.config.rounding))}
        k, i = self.pick(lambda o: np.asarray(o.val).ndim >= 2 and self.is_real(o))
        if k is None:
            return self.g_new(arr=True)
        o = self.w.slots[i].obj
        sh = tuple(np.asarray(o.val).shape)
        fmt = (bool(o.signed), o.n_word, o.n_frac)
        ii = r.randrange(sh[0]) if r.random() < 0.8 else ['sl', 0, r.randint(1, sh[0]), None]
        jj = r.randrange(sh[1] if isinstance(ii, int) else 1) if r.random() < 0.8 else ['sl', None, None, None]
        return {'op': 'setitem_chain', 'slot': k, 'i': ii, 'j': jj,
                'val': self.scalar_spec(self.value(fmt, o.config.rounding))}

    def g_equal(self):
        r = self.rng
        k, i = self.pick(self.is_real)
        if k is None:
            return self.g_new()
        o = self.w.slots[i].obj
        k = self.cands().index(i)
        if r.random() < 0.7 and len(self.cands()) > 1:
            ks, _ = self.pick(lambda q: self.is_real(q) and q is not o)
            if ks is not None:
                return {'op': 'equal', 'slot': k, 'src': {'slot': self.cands().index(_)}}
        return {'op': 'equal', 'slot': k, 'src': {'val': self.val_like_obj(o)}}

    def g_set_from(self):
        k, i = self.pick(self.is_real)
        if k is None or len(self.cands()) < 2:
            return self.g_new()
        o = self.w.slots[i].obj
        if self.rng.random() < 0.06:
            # the object as its own source: x(x), x.set_val(x)
            return {'op': 'set_from', 'slot': self.cands().index(i), 'src': self.cands().index(i), 'self': True,
                    'via': self.rng.choice(['call', 'set_val'])}
        ks, isrc = self.pick(lambda q: self.is_real(q) and q is not o)
        if ks is None:
            return self.g_new()
        return {'op': 'set_from', 'slot': self.cands().index(i), 'src': self.cands().index(isrc),
                'via': self.rng.choice(['call', 'set_val'])}

    def g_setitem_from(self):
        r = self.rng
        k, i = self.pick(lambda o: self.is_arr(o) and self.is_real(o))
        if k is None:
            return self.g_new(arr=True)
        o = self.w.slots[i].obj
        sh = tuple(np.asarray(o.val).shape)
        if r.random() < 0.08 and sh[0] >= 2:
            # within one object: x[i] = x[j] (elements of a 1-D array, rows of a 2-D one)
            a, b = r.sample(range(sh[0]), 2)
            return {'op': 'setitem_from', 'slot': k, 'src': k, 'self': True, 'sindex': a, 'index': b}
        ks, isrc = self.pick(lambda q: self.is_real(q) and q is not o)
        if ks is None:
            return self.g_new()
        so = self.w.slots[isrc].obj
        ssh = tuple(np.asarray(so.val).shape)
        op = {'op': 'setitem_from', 'slot': k, 'src': self.cands().index(isrc)}
        if r.random() < 0.3:
            op['via'] = r.choice(['equal', 'equal', 'set_val'])     # dst.equal(src, index=i) / dst.set_val(src, index=i)
        if len(ssh) == 2 and ssh[0] == 1 and len(sh) == 1 and sh[0] >= ssh[1] and r.random() < 0.6:
            # a source with a leading unit axis, (1, n), into a selection of shape (n,): NumPy strips the axis
            n1 = ssh[1]
            a0 = r.randrange(0, sh[0] - n1 + 1)
            op['index'] = r.choice([['sl', a0, a0 + n1, None], ['fx', r.sample(range(sh[0]), n1)]])
            return op
        if len(ssh) == 2 and ssh[0] == 1 and len(sh) == 2 and sh[1] == ssh[1] and r.random() < 0.5:
            op['index'] = r.randrange(sh[0])                   # (1, n) into a row of an (m, n) destination
            return op
        if ssh == sh and sh and r.random() < 0.5:
            # the whole source into the whole destination through an index that selects every element in
            # ANOTHER order (reversed, rotated, permuted): dst[::-1] = src, dst[[2, 0, 1]] = src
            n0 = sh[0]
            perm = list(range(n0))
            r.shuffle(perm)
            op['index'] = r.choice([['sl', None, None, -1], ['fx', perm], ['ia', perm[1:] + perm[:1]]])
            return op
        if 'F2' in self.p.faults and r.random() < max(self.p.fault_rate, 0.1):
            # a write that must be rejected after its input was looked at: index out of range, or a
            # source that cannot be broadcast into the region
            if len(ssh) == 1 and ssh[0] >= 2 and sh[0] >= 2 and r.random() < 0.5:
                n = r.choice([x for x in range(2, sh[0] + 1) if x != ssh[0]] or [sh[0] + 1])
                op['index'] = ['sl', 0, n, None] if n <= sh[0] else sh[0] + 1
            else:
                op['index'] = sh[0] + r.randint(0, 2)
            return op
        if len(sh) == 2 and len(ssh) == 1 and ssh[0] == sh[0] and r.random() < 0.5:
            op['index'] = [['sl', None, None, None], r.randrange(sh[1])]     # a column: dst[:, j] = src
            return op
        if len(sh) == 2 and len(ssh) == 1 and ssh[0] == sh[1] and r.random() < 0.5:
            op['index'] = r.randrange(sh[0])                                  # a row: dst[i] = src
            return op
        if ssh:
            # element (or row) of the source into an element (or row) of the destination
            sidx = [r.randrange(n) for n in ssh]
            if len(ssh) == 2 and len(sh) == 2 and ssh[1] == sh[1] and r.random() < 0.4:
                op['sindex'] = sidx[0]
                op['index'] = r.randrange(sh[0])
            else:
                op['sindex'] = sidx if len(sidx) > 1 else sidx[0]
                op['index'] = [r.randrange(n) for n in sh] if len(sh) > 1 else r.randrange(sh[0])
        else:
            op['index'] = self.index_for(sh)
        return op

    def g_resize(self, near=True, dtype_p=0.25):
        r = self.rng
        k, i = self.pick(self.is_real)
        if k is None:
            return self.g_new()
        o = self.w.slots[i].obj
        cur = [bool(o.signed), o.n_word, o.n_frac]
        f = self.clamp_fmt(self.near_fmt(cur) if near else self.fmt())
        # keep the re-store inside the core domain: |code| * 2**(shift) < 2**62
        sh, kind, flat = (np.asarray(o.val).shape, None, np.asarray(o.val).ravel().tolist())
        mx = max([abs(c) for c in flat if isinstance(c, int)] or [0])
        if f[2] - cur[2] > 0 and mx.bit_length() + (f[2] - cur[2]) >= 61:
            f[2] = cur[2]
        op = {'op': 'resize', 'slot': self.cands().index(i), 'fmt': f}
        if 'F2' in self.p.faults and r.random() < 0.06:
            # malformed format string, or sizes given together with a dtype: must be rejected
            op['dtype'] = r.choice(['fxp-x8/2', 'fxp', 'Z3.4', '', 'fxp-s8', 's'])
            if r.random() < 0.5:
                # a well-formed dtype string TOGETHER with a size keyword: documented to raise ValueError,
                # and a request that is turned down must leave the object as it was
                op['dtype'] = self.recase('fxp-%s%d/%d' % ('s' if f[0] else 'u', f[1], f[2]))
                op['with'] = r.choice([{'signed': not cur[0]}, {'signed': cur[0]}, {'signed': int(not cur[0])},
                                       {'n_word': f[1]}, {'n_frac': f[2]},
                                       {'n_int': f[1] - f[2] - (1 if f[0] else 0)},
                                       {'signed': not cur[0], 'n_word': f[1]}])
            return op
        if r.random() < dtype_p:
            if r.random() < 0.5:
                op['dtype'] = self.recase('fxp-%s%d/%d' % ('s' if f[0] else 'u', f[1], f[2]))
            elif f[1] - f[2] >= 0:
                op['dtype'] = '%s%d.%d' % (r.choice(['Q', 'S', 'q', 's']) if f[0] else r.choice(['UQ', 'U', 'uq', 'QU', 'qu', 'Qu', 'u']),
                                           f[1] - f[2], f[2])
        elif r.random() < 0.15:
            # n_int with exactly one other size (and possibly a sign change)
            ni = f[1] - f[2] - (1 if f[0] else 0)
            op['n_int'] = ni
            op['fmt'] = [f[0] if (f[0] != cur[0] or r.random() < 0.5) else None] + \
                ([f[1], None] if r.random() < 0.5 else [None, f[2]])
            if r.random() < 0.3:
                op['fmt'] = [op['fmt'][0], f[1], f[2]]          # over-determined, with a contradicting n_int
                op['n_int'] = ni + r.choice([-3, -1, 1, 2, 5])
        elif r.random() < 0.3:
            part = list(f)
            if part[0] == cur[0]:
                part[0] = None
            if part[1] == cur[1] or r.random() < 0.3:
                part[1] = None
            if part[2] == cur[2] or r.random() < 0.3:
                part[2] = None
            op['fmt'] = part
        if self.p.prop in ('C02', 'C04', 'C20') and r.random() < 0.08:
            op['restore_val'] = False      # keep the raw codes, not the value (a rarely used keyword)
        return op

    def g_reset(self):
        k, i = self.pick(prefer=lambda o: isinstance(o.status, dict) and any(
            o.status.get(f) for f in ('overflow', 'underflow', 'inaccuracy')))
        if k is None:
            return self.g_new()
        return {'op': 'reset', 'slot': k}

    def g_from_bin(self):
        r = self.rng
        k, i = self.pick(lambda o: self.is_real(o) and o.n_word >= 2 and o.n_word <= 40 and
                         np.asarray(o.val).ndim == 0)
        if k is None:
            return self.g_new()
        o = self.w.slots[i].obj
        n = r.randint(2, o.n_word) if r.random() < 0.9 or 'F2' not in self.p.faults else o.n_word + 1
        bits = ''.join(r.choice('01') for _ in range(n))
        if r.random() < 0.12:
            bits = '-' + bits       # explicit sign in front of the literal (legal; negates it)
        return {'op': 'from_bin', 'slot': k, 'bits': bits, 'raw': r.random() < 0.3}

    def g_config_set(self, fields=None):
        r = self.rng
        k, i = self.pick()
        if k is None:
            return self.g_new()
        invalid = 'F1' in self.p.faults and r.random() < 0.5
        if invalid:
            f = r.choice(sorted(INVALID) if fields is None else [x for x in fields if x in INVALID])
            v = r.choice(INVALID[f])
            via = r.choice(['config', 'config', 'update', 'mirror']) if f in ('overflow', 'rounding', 'shifting') \
                else r.choice(['config', 'update'])
            return {'op': 'config_set', 'slot': k, 'field': f, 'value': v, 'via': via, 'valid': False}
        f = r.choice(sorted(VALID) if fields is None else fields)
        via = r.choice(['config', 'update', 'mirror']) if f in ('overflow', 'rounding', 'shifting') \
            else r.choice(['config', 'update'])
        return {'op': 'config_set', 'slot': k, 'field': f, 'value': r.choice(VALID[f]), 'via': via, 'valid': True}

    def g_bad_ctor(self):
        r = self.rng
        f = r.choice(sorted(INVALID))
        return {'op': 'bad_ctor', 'cls': r.choice(['Config', 'Fxp']), 'field': f, 'value': r.choice(INVALID[f])}

    def g_register_set(self):
        r = self.rng
        k, i = self.pick()
        if k is None:
            return self.g_new()
        op = {'op': 'register_set', 'slot': k, 'field': r.choice(REG_FIELDS), 'reg': None}
        if r.random() < 0.85:
            kr, ir = self.pick(lambda q: self.is_real(q) and q is not self.w.slots[i].obj)
            if kr is not None:
                op['reg'] = self.cands().index(ir)
        if r.random() < 0.4:
            op['method'] = r.choice(['raw', 'repr'])
        if op['field'].startswith('array_') and r.random() < 0.4:
            op['method'] = 'raw'            # (the NumPy route delivers differently under the raw method)
        if r.random() < 0.2:
            op['same_as'] = r.choice([f for f in REG_FIELDS if f != op['field']])
        return op

    def g_acc_copy(self):
        r = self.rng
        k, i = self.pick(self.is_real)
        if k is None:
            return self.g_new()
        op = {'op': 'acc_copy', 'slot': k, 'field': r.choice(REG_FIELDS),
              'how': r.choice(['deepcopy', 'copy.deepcopy', 'invert', 'flatten', 'fxp_like', 'like_kw', 'like_method'])}
        if r.random() < 0.3:
            op['both'] = r.choice([f for f in REG_FIELDS if f != op['field']])
        return op

    def g_template(self):
        if self.w.template is not None and self.rng.random() < 0.5:
            return {'op': 'template_clear'}
        k, _ = self.pick()
        if k is None:
            return self.g_new()
        return {'op': 'template_set', 'slot': k}

    def g_drop(self):
        k, _ = self.pick()
        if k is None or len(self.cands()) < 3:
            return self.g_new()
        return {'op': 'drop', 'slot': k}

    def some_sites(self):
        """A proper, non-empty subset of the four handlers (a callback need not implement them all)."""
        r = self.rng
        ss = [x for x in SITES if r.random() < 0.5]
        if r.random() < 0.4:
            # written the other way: an instance of the library's Callback base class with handlers
            # attached to the instance (all four, or some)
            if r.random() < 0.5 or not ss:
                ss = list(SITES)
            return ss + ['derived']
        if not ss or len(ss) == len(SITES):
            ss = [r.choice(SITES)]
        return ss

    def g_cb_attach(self):
        k, _ = self.pick()
        if k is None:
            return self.g_new()
        op = {'op': 'cb_attach', 'slot': k, 'n': self.rng.choice([1, 1, 2])}
        if self.rng.random() < 0.3:
            op['sites'] = [self.some_sites() if self.rng.random() < 0.7 else None for _ in range(op['n'])]
        return op

    def g_big_write(self):
        r = self.rng
        nw = r.randint(4, 16)
        n = r.choice([66000, 70000, 131100, 140000, 200000])
        far = [0, n - 1, n // 2, 65535, 65536, 65537, 131071, 131072]
        op = {'op': 'big_write', 'n': n, 'fmt': [r.random() < 0.7, nw, r.randint(0, nw - 1)],
              'overflow': r.choice(['saturate', 'saturate', 'wrap']), 'via': r.choice(['set_val', 'set_val', 'setitem']),
              'over': r.sample(far, r.randint(0, 3)), 'under': []}
        if op['fmt'][0] and r.random() < 0.6:
            rest = [q for q in far if q % n not in [o_ % n for o_ in op['over']]]
            op['under'] = r.sample(rest, r.randint(1, min(3, len(rest))))
        if not op['over'] and not op['under']:
            op['over'] = [0, n - 1]
        return op

    def g_cb_replace(self):
        r = self.rng
        k, i = self.pick(lambda o: bool(o.callbacks))
        if k is None:
            return self.g_cb_attach()
        return {'op': 'cb_replace', 'slot': k, 'how': r.choice(['list', 'list', 'inplace', 'slice']),
                'k': r.randrange(3), 'equal': r.random() < 0.7}

    def g_cb_arm(self):
        r = self.rng
        k, i = self.pick(lambda o: bool(o.callbacks))
        if k is None:
            return self.g_cb_attach()
        want_raise = 'F3' in self.p.faults and (r.random() < 0.5 or 'F4' not in self.p.faults)
        site = r.choice(SITES)
        op = {'op': 'cb_arm', 'slot': k, 'k': r.randrange(3), 'site': site}
        if 'F2' in self.p.faults and r.random() < 0.12:
            op['nocopy'] = True           # F2: a handler that cannot be deep-copied (it holds a lock, a file ...)
            return op
        if self.p.prop == 'C02' and 'F4' in self.p.faults and r.random() < 0.2:
            op['selfwiden'] = r.choice([1, 2, 4, 8])      # F10: the handler widens its own object during its resize
            op['site'] = r.choice(['on_value_change', 'on_value_change', site])
            self.on_last(lambda: self.g_resize(dtype_p=0.6))
            return op
        if r.random() < 0.2:
            op['unregister'] = True       # F7: one-shot callback that removes itself when notified
            return op
        if 'F8' in self.p.faults and self.p.prop == 'C04' and self.is_real(self.w.slots[i].obj) and \
                (r.random() < 0.5 or not (set(self.p.faults) & {'F3', 'F4'})):
            # F8: the handler writes to the object it is notified about, mid-write
            o = self.w.slots[i].obj
            if r.random() < 0.3:
                op['selfreset'] = True        # ... or resets it ("count and re-arm")
                return op
            op['selfwrite'] = self.val_like_obj(o, kind=r.choice(['hi+', 'lo-', 'inexact', 'exact', 'far', 'tie', None]))
            op['via'] = r.choice(['call', 'set_val'])
            return op
        if want_raise:
            op['raise'] = True
            if r.random() < 0.25:
                op['sticky'] = True     # a strict handler: raises every time, and so do the library's copies of it
        else:
            inner = []
            for _ in range(r.randint(1, 2)):
                inner.append(self.inner_op())
            op['ops'] = inner
        return op

    def inner_op(self):
        """An op to be run from inside a callback, on other objects."""
        r = self.rng
        g = r.choice([self.g_call, self.g_resize, self.g_reset, self.g_deepcopy, self.g_template,
                      self.g_call, self.g_setitem, self.g_config_set, self.g_arith, self.g_new_like,
                      self.g_equal])
        op = g()
        if op['op'] == 'cb_arm':
            op = self.g_call()
        return op

    def g_provoke(self):
        """A write aimed at firing the armed callback of some object: out-of-range or inexact."""
        armed = lambda o: any(getattr(c, 'armed', None) for c in (o.callbacks or []))
        k, i = self.pick(lambda o: self.is_real(o) and bool(o.callbacks), prefer=armed)
        if k is None:
            return self.g_call()
        o = self.w.slots[i].obj
        kind = self.rng.choice(['hi+', 'lo-', 'inexact', 'far', 'exact', 'tie'])
        if self.rng.random() < 0.3:
            op = self.g_resize()
            op['slot'] = self.cands().index(i)
            return op
        return {'op': 'call', 'slot': self.cands().index(i), 'val': self.val_like_obj(o, kind=kind),
                'via': self.rng.choice(['call', 'set_val'])}

    # ------------------------------------------------------------------ tables
    def table(self):
        p = self.p
        G = set(p.groups)
        F = set(p.faults)
        prop = p.prop
        t = []

        def add(wt, fn, group=None):
            if group is None or group in G:
                t.append((wt, fn))
        if prop == 'C20' or prop == 'C02':
            add(6, self.g_new)
            add(1, self.g_new_infer)
            add(1, self.g_new_allcodes)
            add(3, self.g_new_from)
            add(4, self.g_new_like)
            add(2, self.g_new_tplkw, 'templates')
            add(2, self.g_new_cont, 'containers')
            add(2, self.g_store_cont, 'containers')
            add(2, self.g_cont_new, 'containers')
            add(1, self.g_cfg_new, 'containers')
            add(1, self.g_export, 'containers')
            if 'strings' in G:
                add(1, self.g_frombin_cont, 'containers')
            add(2, self.g_new_cfg, 'containers')
            if 'F6' in F:
                add(1, self.g_cfg_mutate, 'containers')
            add(3, self.g_deepcopy, 'derive_copy')
            add(4, self.g_like, 'derive_copy')
            add(2, self.g_unary, 'derive_arith')
            add(6, self.g_arith, 'derive_arith')
            add(3, self.g_bitwise, 'derive_bits')
            add(3, self.g_shift, 'derive_bits')
            add(5, self.g_getitem, 'derive_index')
            add(1, self.g_iterate, 'derive_index')
            add(3, self.g_reduce, 'derive_reduce')
            add(1, self.g_npfunc, 'derive_reduce')
            add(7, self.g_call, 'mutate_value')
            add(2, self.g_set_raw, 'mutate_value')
            add(2, self.g_equal, 'mutate_value')
            add(3, self.g_set_from, 'mutate_value')
            add(1, self.g_from_bin, 'strings')
            add(5, self.g_setitem, 'mutate_index')
            add(4, self.g_setitem_chain, 'mutate_index')
            add(2, self.g_setitem_from, 'mutate_index')
            add(5, self.g_resize, 'mutate_format')
            add(2, self.g_reset, 'mutate_value')
            add(4, self.g_config_set, 'mutate_config')
            if p.p_register > 0:
                add(int(10 * p.p_register) + 1, self.g_register_set, 'registers')
                add(1, self.g_acc_copy, 'registers')
            if 'F5' in F:
                add(3, self.g_template, 'templates')
                add(1, self.g_cfg_template, 'templates')
            if 'F6' in F:
                add(2, self.g_cont_mutate, 'containers')
            if 'F1' in F:
                add(2, self.g_bad_ctor)
                add(3, self.g_config_set)
            add(1, self.g_drop)
            if F & {'F3', 'F4'}:
                add(2, self.g_cb_attach)
                add(4, self.g_cb_arm)
                add(4, self.g_provoke)
            add(3, self.g_chain2)
            add(3, self.g_observe)
            add(1, self.g_pow, 'derive_arith')
            add(1, self.g_probe_shift, 'derive_bits')
            add(1, self.g_probe_repr_into_register, 'derive_reduce')
            if prop == 'C20':
                add(2, lambda: self.g_shallow(('flatten', 'fxp_like')), 'derive_copy')
                add(2, self.g_sort_inplace, 'mutate_index')
            if prop == 'C02':
                if p.get('big_arrays'):
                    add(2, self.g_big_write)
                add(4, self.g_shallow)
                add(3, self.g_big_store)
                add(1, self.g_sort_inplace, 'derive_index')
        elif prop == 'C04':
            add(5, lambda: self.g_new(ncb=None))
            add(1, self.g_new_infer)
            add(2, self.g_new_from)
            add(2, self.g_new_like)
            add(10, self.g_call)
            add(3, self.g_set_raw)
            add(3, self.g_equal)
            add(2, self.g_set_from)
            add(2, self.g_from_bin, 'strings')
            add(4, self.g_setitem, 'mutate_index')
            add(2, self.g_setitem_from, 'mutate_index')
            add(5, self.g_resize)
            add(4, self.g_reset)
            add(3, lambda: self.g_config_set(['overflow', 'rounding']))
            add(6, lambda: self.g_arith(['add', 'sub', 'mul', 'add', 'sub', 'mul', 'truediv', 'floordiv', 'mod'],
                                        judged=True), 'derive_arith')
            add(2, self.g_reduce, 'derive_reduce')
            add(1, self.g_npfunc, 'derive_reduce')
            add(2, self.g_unary, 'derive_arith')
            add(1, self.g_like)
            add(1, self.g_deepcopy)
            add(2, self.g_big_store)
            add(2, self.g_observe)
            add(2, self.g_chain2)
            add(1, self.g_probe_bigstore_then_convert)
            add(1, self.g_probe_objpath_rounding)
            if p.p_register > 0:
                add(int(10 * p.p_register) + 1, self.g_register_set, 'registers')
            if p.p_cb > 0:
                add(3, self.g_cb_attach)
                add(5, self.g_provoke)
                add(2, self.g_cb_replace)
            if p.get('big_arrays'):
                add(2, self.g_big_write)
            if F & {'F3', 'F4', 'F8'}:
                add(4, self.g_cb_arm)
            if F & {'F3', 'F8'}:
                add(2, self.g_probe_register_handler, 'derive_arith')
            if 'F1' in F:
                add(2, lambda: self.g_config_set(['overflow', 'rounding', 'shifting']))
            if 'F5' in F:
                add(1, self.g_template)
        elif prop == 'C10':
            add(6, lambda: self.g_new(full_modes=True))
            add(2, self.g_new_allcodes)
            add(7, lambda: self.g_resize(dtype_p=0.35))
            add(5, self.g_new_from)
            add(5, self.g_conv_like_kw)
            add(5, self.g_like)
            add(5, self.g_set_from)
            add(4, self.g_conv_equal)
            add(4, self.g_setitem_from)
            add(2, self.g_getitem)       # views (rows, columns, stepped and reversed slices) as sources
            add(1, self.g_iterate)
            add(3, lambda: self.g_config_set(['overflow', 'rounding']))
            add(1, lambda: self.g_config_set(['n_word_max', 'max_error', 'op_sizing', 'dtype_notation']))
            add(2, self.g_call)
            add(1, self.g_big_store)     # sources that went through the Python-integer store path
            add(1, self.g_probe_bigstore_then_convert)
            add(2, self.g_chain2)
            add(1, self.g_deepcopy)
            add(1, self.g_drop)
            if 'F5' in F:
                add(2, self.g_template)
            if F & {'F3', 'F4'}:
                add(2, self.g_cb_attach)
                add(3, self.g_cb_arm)
            if 'F3' in F:
                add(2, self.g_probe_aborted_resize_then_convert)
            if 'F1' in F:
                add(1, lambda: self.g_config_set(['overflow', 'rounding']))
        return t

    def g_conv_like_kw(self):
        kl, il = self.pick()
        ks, isrc = self.pick(self.is_real)
        if kl is None or ks is None:
            return self.g_new()
        op = {'op': 'new_like', 'like': self.cands().index(il), 'src': {'slot': self.cands().index(isrc)}}
        if self.rng.random() < 0.3:
            op['fmt'] = self.partial_override(self.w.slots[il].obj)
        elif self.rng.random() < 0.1:
            self.n_int_override(self.w.slots[il].obj, op)
        return op

    def g_conv_equal(self):
        k, i = self.pick(self.is_real)
        if k is None or len(self.cands()) < 2:
            return self.g_new()
        o = self.w.slots[i].obj
        if self.rng.random() < 0.06:
            return {'op': 'equal', 'slot': self.cands().index(i), 'src': {'slot': self.cands().index(i), 'self': True}}
        ks, isrc = self.pick(lambda q: self.is_real(q) and q is not o)
        if ks is None:
            return self.g_new()
        return {'op': 'equal', 'slot': self.cands().index(i), 'src': {'slot': self.cands().index(isrc)}}

    def g_big_store(self):
        """C02 clause 5: saturating stores of inputs of any magnitude."""
        r = self.rng
        nw = r.randint(1, 52)
        fmt = [r.random() < 0.6, nw, r.randint(0, nw + 3)]
        sign = r.choice([1, -1])
        k = r.random()
        if k < 0.5:
            e = r.choice([r.randint(50, 70), r.randint(60, 66), r.randint(70, 1000)])
            n = sign * ((1 << e) + r.choice([-1, 0, 1, r.randrange(1 << min(e, 60))]))
            val = ['i', n]
        elif k < 0.62:
            # floats whose SCALED value sits exactly on, or one ulp beside, a machine-integer mark
            e = r.choice([62, 63, 63, 63, 64, 64, 53])
            m = r.choice([1 << 52, 1 << 52, (1 << 52) + 1, (1 << 53) - 1])
            val = ['f', sign * m, e - 52 - fmt[2]]
        elif k < 0.8:
            val = ['f', sign * r.randrange(1, 1 << 53), r.randint(0, 960)]
        else:
            lo, hi = Q.bounds(fmt[0], nw)
            c = (hi + r.randint(1, 1 << 20)) if sign > 0 else (lo - r.randint(1, 1 << 20))
            v = Q.unscale(c, fmt[2])
            val = self.scalar_spec(v) if V.float_ok(v) else ['i', int(v) + sign]
        kw = {'overflow': 'saturate'}
        sat_only = lambda o: o.config.overflow == 'saturate'
        if self.p.prop == 'C04' and r.random() < 0.35:
            # C04 judges integers of any size under wrap too (which side they left the range on)
            kw = {'overflow': 'wrap'}
            sat_only = lambda o: True
        if r.random() < 0.6:
            kw['rounding'] = r.choice(ROUNDINGS)
        if self.p.prop == 'C04' and r.random() < 0.12:
            # machine integers in the last 2^n_word below 2^63 (and just above -2^63), as an int64 array,
            # a list, or raw codes: where a biased or doubled intermediate leaves int64
            top = (1 << 63) - 1 - r.randrange(1 << min(nw, 40))
            items = [top if sign > 0 else -top - 1]
            if r.random() < 0.6:
                items.append(r.choice([0, 1, -1, 5, -(1 << 62), (1 << 62)]))
            r.shuffle(items)
            arr = r.choice([['a', 'int64', [len(items)], [[it, 0] for it in items]], ['l', [['i', it] for it in items]]])
            fmt0 = [fmt[0], nw, r.choice([0, 0, fmt[2]])]
            if r.random() < 0.5:
                return {'op': 'new', 'val': arr, 'fmt': fmt0, 'kw': kw, 'raw': r.random() < 0.4}
            ks, i = self.pick(lambda o: self.is_real(o) and sat_only(o) and not o.scaled)
            if ks is None:
                return {'op': 'new', 'val': arr, 'fmt': fmt0, 'kw': kw}
            if r.random() < 0.5:
                return {'op': 'set_raw', 'slot': self.cands().index(i), 'val': arr}
            return {'op': 'call', 'slot': self.cands().index(i), 'val': arr, 'via': r.choice(['call', 'set_val'])}
        if 'strings' in self.p.groups and r.random() < 0.08:
            # decimal literals of great magnitude, with and without a fractional part, as a NumPy string
            # array / a list of strings / one string
            e = r.choice([r.randint(55, 62), 63, 63, 64, r.randint(65, 90)])
            n = sign * ((1 << e) + r.randrange(1 << 20))
            pair = [2 * n + sign, -1] if r.random() < 0.6 else [n, 0]
            q2 = r.random()
            sval = ['a', 'str', [1], [pair]] if q2 < 0.5 else ['l', [['s', pair[0], pair[1]]]] if q2 < 0.75 else ['s', pair[0], pair[1]]
            return {'op': 'new', 'val': sval, 'fmt': fmt, 'kw': kw}
        if r.random() < 0.1:
            # integers around the 64-bit marks in an object-dtype array (what NumPy makes of Python
            # integers it cannot hold): one sign only, or both
            items = [sign * ((1 << r.choice([62, 63, 63, 64, 65])) + r.choice([-1, 0, 0, 1, r.randrange(1 << 30)]))]
            if r.random() < 0.5:
                items.append(r.choice([0, 1, sign * 3, -sign * 2, sign * (1 << 63)]))
            arr = ['a', 'object', [len(items)], [[it, 0] for it in items]]
            q2 = r.random()
            pred2 = lambda o: self.is_real(o) and sat_only(o) and o.n_frac >= 0 and not o.scaled
            ks, i = self.pick(pred2)
            if q2 < 0.4 or ks is None:
                return {'op': 'new', 'val': arr, 'fmt': fmt, 'kw': kw, 'raw': r.random() < 0.5}
            if q2 < 0.7:
                return {'op': 'set_raw', 'slot': self.cands().index(i), 'val': arr}
            return {'op': 'call', 'slot': self.cands().index(i), 'val': arr, 'via': r.choice(['call', 'set_val'])}
        if val[0] == 'i' and r.random() < 0.25:
            # a list mixing huge and ordinary Python integers, both signs
            items = [val, ['i', r.randint(-5, 5)]]
            if r.random() < 0.5:
                items.append(['i', -val[1] + r.randint(-3, 3)])
            r.shuffle(items)
            if r.random() < 0.4:
                # the same integers as an object-dtype array (NumPy's own container for Python integers)
                arr = ['a', 'object', [len(items)], [[it[1], 0] for it in items]]
                q2 = r.random()
                if q2 < 0.5:
                    return {'op': 'new', 'val': arr, 'fmt': fmt, 'kw': kw, 'raw': r.random() < 0.4}
                pred2 = lambda o: self.is_real(o) and o.config.overflow == 'saturate' and o.n_frac >= 0 and not o.scaled
                ks, i = self.pick(pred2)
                if ks is not None:
                    if r.random() < 0.5:
                        return {'op': 'set_raw', 'slot': self.cands().index(i), 'val': arr}
                    return {'op': 'call', 'slot': self.cands().index(i), 'val': arr, 'via': r.choice(['call', 'set_val'])}
            return {'op': 'new', 'val': ['l', items], 'fmt': fmt, 'kw': kw}
        q = r.random()
        as_code = val[0] == 'i' and r.random() < 0.3      # the integer handed over as a raw code
        if q < 0.4:
            op = {'op': 'new', 'val': val, 'fmt': fmt, 'kw': kw}
            if as_code:
                op['raw'] = True
            return op
        pred = lambda o: self.is_real(o) and sat_only(o) and o.n_frac >= 0 and not o.scaled
        if as_code and q < 0.75:
            ks, i = self.pick(pred)
            if ks is not None:
                return {'op': 'set_raw', 'slot': self.cands().index(i), 'val': val}
        if q < 0.75:
            # prefer destinations whose value type no longer matches their format (built from an
            # int, later given fraction bits): the read-back after the store takes another path
            ks, i = self.pick(pred, prefer=lambda o: o.vdtype is int and o.n_frac != 0)
            if ks is None:
                return {'op': 'new', 'val': None, 'fmt': fmt, 'kw': kw}
            return {'op': 'call', 'slot': self.cands().index(i), 'val': val, 'via': r.choice(['call', 'set_val'])}
        ks, i = self.pick(lambda o: pred(o) and self.is_arr(o))
        if ks is None:
            return {'op': 'new', 'val': self.array_spec(fmt, self.shape()), 'fmt': fmt, 'kw': kw}
        sh = tuple(np.asarray(self.w.slots[i].obj.val).shape)
        return {'op': 'setitem', 'slot': ks, 'index': [r.randrange(n) for n in sh] if len(sh) > 1 else r.randrange(sh[0]),
                'val': val}

    # ------------------------------------------------------------------ macro sequences
    def on_last(self, fn, fix=None):
        """Queue generator `fn` for the next step, acting on the object the coming step produces or
        writes (its first pick() is forced to that slot); `fix` may adjust the op it generates."""
        def follow():
            self.force = self.hot[0] if self.hot else None
            op = fn()
            self.force = None
            if fix is not None:
                op = fix(op) or op
            return op
        self.queue.append(follow)

    def g_probe_shift(self):
        """A single-bit code at the top of a wide word, then a left shift that has to grow the word."""
        r = self.rng
        nw = r.randint(47, 52)
        signed = r.random() < 0.4
        fmt = [signed, nw, r.choice([0, r.randint(0, nw)])]
        k = nw - 1 - (1 if signed else 0) - r.choice([0, 0, 0, 1])
        op = {'op': 'new', 'val': ['i', 1 << k], 'fmt': fmt, 'kw': self.modes(), 'raw': True}
        if r.random() < 0.3:
            op['val'] = ['l', [['i', r.randint(0, 3)], ['i', 1 << k]]]

        def fix(sh):
            if sh.get('op') == 'shift':
                sh['dir'] = 'l'
                sh['n'] = r.choice([1, 1, 2, 3, 52 - nw + 1, max(1, 52 - nw)])
            return sh
        self.on_last(self.g_shift, fix)
        return op

    def g_probe_objpath_rounding(self):
        """Negative n_frac, and a small integer whose scaled value lies a fraction above the upper bound (or
        below the lower one) and truncates ONTO the bound - next to an element beyond 64 bits (the whole
        array then takes the library's Python-number path), or carried by a list of np.uint64 scalars."""
        r = self.rng
        signed = r.random() < 0.6
        nw = r.randint(2, 12)
        k = r.randint(1, 5)
        fmt = [signed, nw, -k]
        lo, hi = Q.bounds(signed, nw)
        up = r.random() < 0.6 or not signed
        small = hi * (1 << k) + (1 << k) - r.randint(1, (1 << k) - 1) if up else lo * (1 << k) - ((1 << k) - r.randint(1, (1 << k) - 1))
        kw = {'overflow': r.choice(['saturate', 'saturate', 'wrap'])}
        q = r.random()
        if q < 0.5:
            big = r.choice([(1 << 63) - 1, -(1 << 63), (1 << 63) - 1 - r.randrange(1 << 10)])
            items = [big, small]
            r.shuffle(items)
            val = ['a', 'int64', [2], [[it, 0] for it in items]]
        elif q < 0.7:
            items = [r.choice([1, -1]) * ((1 << r.randint(64, 70)) + r.randrange(100)), small]
            r.shuffle(items)
            val = ['l', [['i', it] for it in items]]
        elif small >= 0:
            val = ['l', [['n', 'uint64', small, 0]] + ([['n', 'uint64', r.randint(0, 3), 0]] if r.random() < 0.5 else [])]
        else:
            val = ['l', [['n', 'int64', small, 0]]]
        ks, i = self.pick(lambda o: self.is_real(o) and not o.scaled)
        if ks is None or r.random() < 0.6:
            return {'op': 'new', 'val': val, 'fmt': fmt, 'kw': kw}
        return {'op': 'new', 'val': val, 'fmt': fmt, 'kw': kw, 'ncb': 1}

    def g_probe_bigstore_then_convert(self):
        """A store that needed Python integers, then that object as the source of a conversion."""
        op = self.g_big_store()
        self.on_last(lambda: self.g_new_from(), None)
        return op

    def g_probe_aborted_resize_then_convert(self):
        """Fault F3 aimed: an object whose resize is aborted by its own overflow / underflow handler
        (raised BEFORE the store: new sizes over old codes), then a conversion between that object and
        one that still has its old format - in either direction, by an indexed assignment."""
        r = self.rng
        wide = r.random() < 0.35
        if wide:
            # a wide word holding a large code, shrunk (aborted) to a few bits: afterwards the codes exceed
            # the declared word by far, and the re-scaled code of a later conversion leaves int64
            nw = r.randint(44, 52)
            old = [True, nw, r.choice([0, 0, r.randint(0, 6)])]
        else:
            nw = r.randint(5, 16)
            old = [r.random() < 0.6, nw, r.randint(1, nw - 2)]
        x_is_array = False       # (the stale object is only ever a source: see engine, source_only)
        op1 = self.g_new(fmt=old, arr=x_is_array, ncb=1, val_kind=r.choice(['hi', 'near_hi', 'lo', 'near_lo', 'hi']))
        op1['kw'] = {k: v for k, v in op1['kw'].items() if k in ('rounding', 'overflow')}
        op1.pop('dtype', None)
        st = {}

        def kx():
            return self.cands().index(st['x']) if st.get('x') in self.cands() else None

        def arm():
            st['x'] = self.hot[0] if self.hot else None
            k = kx()
            if k is None:
                return self.g_call()
            return {'op': 'cb_arm', 'slot': k, 'k': 0, 'raise': True,
                    'site': r.choice(['on_status_overflow', 'on_status_underflow'])}

        def resize():
            k = kx()
            if k is None:
                return self.g_call()
            if wide:
                return {'op': 'resize', 'slot': k, 'fmt': [None, r.randint(4, 12), None]}
            d = r.randint(1, 4)
            return {'op': 'resize', 'slot': k, 'fmt': r.choice([[None, None, old[2] + d], [not old[0], None, old[2] + d],
                                                               [None, None, old[2] + d]])}

        def other():
            if wide:
                return self.g_new(fmt=[True, 52, old[2] + r.randint(14, 40)], arr=r.random() < 0.5, ncb=0, val_kind='exact')
            return self.g_new(fmt=old, arr=not x_is_array, ncb=0, val_kind='exact')

        def convert():
            k = kx()
            y = self.hot[0] if self.hot else None
            if k is None or y not in self.cands() or y == st['x']:
                return self.g_call()
            ky = self.cands().index(y)
            if x_is_array:
                return {'op': 'setitem_from', 'slot': k, 'src': ky, 'index': 0}       # stale[i] = other
            yo = self.w.slots[y].obj
            q = r.random()
            if q < 0.35 or np.asarray(yo.val).ndim == 0:
                # the other routes that take the stale object as their source
                return r.choice([{'op': 'equal', 'slot': ky, 'src': {'slot': k}},
                                 {'op': 'equal', 'slot': ky, 'src': {'slot': k}},
                                 {'op': 'set_from', 'slot': ky, 'src': k, 'via': r.choice(['call', 'set_val'])},
                                 {'op': 'new_from', 'src': k, 'fmt': [bool(yo.signed), yo.n_word, yo.n_frac], 'kw': {}}])
            op = {'op': 'setitem_from', 'slot': ky, 'src': k, 'index': 0}           # other[i] = stale
            if r.random() < 0.4:
                op['via'] = r.choice(['equal', 'set_val'])
            return op
        self.queue.extend([arm, resize, other, convert])
        return op1

    def g_probe_register_handler(self):
        """Faults F3 / F7 / F8 aimed at a RESULT REGISTER: an operand that carries the inaccuracy flag, a
        register with a handler of its own armed at one site (it raises, resets the register, writes to
        it, or unregisters itself), then an arithmetic operation or a reduction landing in that register
        (out=, or config.op_out through the operator)."""
        r = self.rng
        F = set(self.p.faults)
        nw = r.randint(4, 12)
        fa = [r.random() < 0.7, nw, r.randint(1, nw - 1)]
        arr = r.random() < 0.4
        op1 = self.g_new(fmt=fa, arr=arr, ncb=0, val_kind=r.choice(['inexact', 'inexact', 'exact']))
        st = {}

        def idx(key):
            c = self.cands()
            return c.index(st[key]) if st.get(key) in c else None

        def reg():
            st['a'] = self.hot[0] if self.hot else None
            w2 = min(52, nw + r.randint(0, 8))
            return self.g_new(fmt=[fa[0], w2, r.randint(0, min(w2 - 1, fa[2] + 2))], arr=False, ncb=r.choice([1, 1, 2]),
                              val_kind='exact')

        def arm():
            st['r'] = self.hot[0] if self.hot else None
            k = idx('r')
            if k is None:
                return self.g_call()
            op = {'op': 'cb_arm', 'slot': k, 'k': r.randrange(2), 'site': r.choice(SITES)}
            kinds = ['unregister']
            if 'F8' in F and self.p.prop == 'C04':
                kinds += ['selfreset', 'selfreset', 'selfwrite']
            if 'F3' in F:
                kinds += ['raise', 'raise']
            kind = r.choice(kinds)
            if kind == 'selfwrite':
                o = self.w.slots[st['r']].obj
                op['selfwrite'] = self.val_like_obj(o, kind=r.choice(['hi+', 'inexact', 'exact', None]))
                op['via'] = r.choice(['call', 'set_val'])
            else:
                op[kind] = True
            return op

        def use():
            ka, kr = idx('a'), idx('r')
            if ka is None or kr is None:
                return self.g_call()
            f = r.choice(['add', 'sub', 'mul', 'add', 'truediv'])
            if arr and r.random() < 0.3:
                op = {'op': 'reduce', 'f': r.choice(['sum', 'sum', 'max', 'min', 'cumsum']), 'a': ka, 'route': 'fn', 'out': kr}
                if op['f'] == 'sum' and r.random() < 0.5:
                    op['legacy'] = 'sizes'
                return op
            b = {'slot': ka} if r.random() < 0.4 else {'val': ['i', r.randint(1, 3)]}
            return {'op': 'arith', 'f': f, 'a': ka, 'b': b, 'route': r.choice(['fn', 'fn', 'np']), 'out': kr}
        self.queue.extend([reg, arm, use])
        return op1

    def g_probe_repr_into_register(self):
        """Integer formats end to end: an operand with n_frac = 0 built from integers (its get_val() is
        its own buffer), a register of an integer format that can hold every value, and a function called
        with method='repr' and out= that register - then an indexed write on one of the two."""
        r = self.rng
        signed = r.random() < 0.6
        nw = r.randint(5, 12)
        sh = r.choice([(2, 2), (2, 3), (3, 3), (3,), (4,)])
        lo, hi = Q.bounds(signed, nw)
        n = int(np.prod(sh))
        vals = [[r.randint(max(lo, -20), min(hi, 20)), 0] for _ in range(n)]
        op1 = {'op': 'new', 'val': ['a', 'int64', list(sh), vals], 'fmt': [signed, nw, 0], 'kw': {}}
        st = {}

        def idx(key):
            c = self.cands()
            return c.index(st[key]) if st.get(key) in c else None

        def reg():
            st['a'] = self.hot[0] if self.hot else None
            return {'op': 'new', 'val': ['i', 0], 'fmt': [signed, nw + r.randint(1, 6), 0], 'kw': {}}

        def use():
            st['r'] = self.hot[0] if self.hot else None
            ka, kr = idx('a'), idx('r')
            if ka is None or kr is None:
                return self.g_call()
            fs = ['transpose', 'sum', 'sort', 'cumsum', 'max'] + (['diagonal', 'transpose', 'trace'] if len(sh) == 2 else [])
            f = r.choice(fs)
            op = {'op': 'reduce', 'f': f, 'a': ka, 'route': r.choice(['fn', 'fn', 'method']), 'out': kr,
                  'method': r.choice(['repr', 'repr', 'raw'])}
            if f in ('sum', 'cumsum', 'max', 'sort'):
                op['axis'] = r.choice([None, 0]) if f != 'sort' else 0
            return op

        def poke():
            k = idx(r.choice(['a', 'r']))
            if k is None:
                return self.g_call()
            self.force = self.cands()[k]
            op = self.g_setitem()
            self.force = None
            return op
        self.queue.extend([reg, use, poke])
        return op1

    def g_chain2(self):
        """Two ordinary steps in a row on the same object."""
        t = getattr(self, '_table', None) or self.table()
        fns = [fn for _, fn in t if getattr(fn, '__name__', '') not in ('g_chain2', 'g_probe_shift',
                                                                          'g_probe_bigstore_then_convert',
                                                                          'g_probe_aborted_resize_then_convert',
                                                                          'g_probe_register_handler',
                                                                          'g_probe_repr_into_register')]
        a, b = self.rng.choice(fns), self.rng.choice(fns)
        op = a()
        self.on_last(b)
        return op

    def g_pow(self):
        """x ** k with a small non-negative integer exponent (operator, function and NumPy routes)."""
        r = self.rng
        k, i = self.pick(lambda o: self.is_real(o) and o.n_word <= 16)
        if k is None:
            return self.g_new(fmt=[r.random() < 0.6, r.randint(2, 12), r.randint(0, 6)])
        op = {'op': 'arith', 'f': 'pow', 'a': self.cands().index(i), 'b': {'val': ['i', r.randint(0, 3)]},
              'route': r.choice(['op', 'op', 'fn', 'np'])}
        if r.random() < 0.3:
            # an exponent that is a list / tuple / array of small integers (one per element, or broadcast)
            sh = tuple(np.asarray(self.w.slots[i].obj.val).shape)
            n = sh[-1] if sh else r.randint(1, 3)
            if 0 < n <= 4:
                es = [r.randint(0, 3) for _ in range(n)]
                op['b'] = {'val': r.choice([['l', [['i', e] for e in es]], ['t', [['i', e] for e in es]],
                                           ['a', 'int64', [n], [[e, 0] for e in es]]])}
        if op['route'] == 'fn' and r.random() < 0.5:
            op['sizing'] = r.choice(SIZINGS)
        return op

    def g_observe(self):
        from .engine import World
        k, _ = self.pick()
        if k is None:
            return self.g_new()
        return {'op': 'observe', 'slot': k, 'f': self.rng.choice(World.OBSERVERS)}

    def g_sort_inplace(self):
        k, _ = self.pick(lambda o: self.is_arr(o) and self.is_real(o))
        if k is None:
            return self.g_new(arr=True)
        return {'op': 'sort_inplace', 'slot': k}

    def next_op(self):
        if not self.banned:
            return self._next_op()
        from .oracles import culprit_of_op
        for _ in range(20):
            op = self._next_op()
            if culprit_of_op(op) not in self.banned:
                return op
        return {'op': 'template_clear'}

    def _next_op(self):
        try:
            return self._draw_op()
        except Exception as e:      # a generator slip must not take the whole batch down
            self.w.bump('generator_fallback')
            self.w.bump('generator_fallback_' + type(e).__name__)
            return {'op': 'new', 'val': ['i', 1], 'fmt': [True, 8, 2], 'kw': {}}

    def prologue(self):
        """First run of a process (fault F5 aimed): the very first objects of the process are built while
        a global template is in force; the template is then withdrawn and more objects are built.
        Whatever the library remembered from its first moments must not shape the later ones."""
        r = self.rng
        q = r.random()
        fmt = lambda: self.fmt()
        if q < 0.45:
            kw = {'rounding': r.choice([x for x in ROUNDINGS if x != 'trunc']), 'overflow': r.choice(OVERFLOWS)}
            if r.random() < 0.5:
                kw['shifting'] = r.choice(['trunc', 'keep'])
            if r.random() < 0.5:
                kw['op_sizing'] = r.choice([x for x in SIZINGS if x != 'optimal'])
            seq = [lambda: {'op': 'cfg_new', 'kw': kw}, lambda: {'op': 'cfg_template', 'c': 0}]
            seq += [lambda: self.g_new(fmt=fmt(), ncb=0) for _ in range(r.randint(1, 2))]
            seq += [lambda: {'op': 'cfg_template', 'c': None}]
            seq += [lambda: dict(self.g_new(fmt=fmt(), ncb=0), kw={}) for _ in range(r.randint(1, 2))]
            return seq
        if q < 0.7:
            seq = [lambda: self.g_new(fmt=fmt(), ncb=0, full_modes=True), lambda: {'op': 'template_set', 'slot': 0}]
            seq += [lambda: {'op': 'new', 'val': ['i', 1], 'fmt': [None, None, None], 'kw': {}}]
            seq += [lambda: {'op': 'template_clear'}]
            seq += [lambda: dict(self.g_new(fmt=fmt(), ncb=0), kw={}) for _ in range(r.randint(1, 2))]
            return seq
        return []

    def _draw_op(self):
        self.force = None
        if self.p.get('pristine') and not getattr(self, '_prologue_drawn', False):
            self._prologue_drawn = True
            self._prologue = self.prologue()
        if getattr(self, '_prologue', None):
            return self._prologue.pop(0)()
        if not self.cands():
            self.queue = []
            return self.g_new()
        if self.queue:
            return self.queue.pop(0)()
        t = getattr(self, '_table', None)
        if t is None:
            t = self._table = self.table()
            self._total = sum(wt for wt, _ in t)
        x = self.rng.random() * self._total
        for wt, fn in t:
            x -= wt
            if x < 0:
                return fn()
        return t[-1][1]()
