"""Import the library under test from /repo's working tree (or FXSIM_REPO for scratch copies)."""
import os
import sys

REPO = os.path.abspath(os.environ.get('FXSIM_REPO', '/repo'))

if 'fxpmath' in sys.modules:  # pragma: no cover - defensive
    _loaded = os.path.abspath(os.path.dirname(sys.modules['fxpmath'].__file__))
    if os.path.dirname(_loaded) != REPO:
        raise RuntimeError('fxpmath already imported from %s, wanted %s' % (_loaded, REPO))

# drop the editable-install finder so that only REPO decides which sources are imported
sys.meta_path[:] = [f for f in sys.meta_path if 'editable' not in type(f).__module__
                    and 'editable' not in getattr(f, '__name__', '')
                    and 'editable' not in type(f).__name__.lower()]
sys.path.insert(0, REPO)
sys.dont_write_bytecode = True

import numpy as np  # noqa: E402
import fxpmath  # noqa: E402
from fxpmath import Fxp, Config  # noqa: E402
import fxpmath.functions as fxf  # noqa: E402
import fxpmath.utils as fxu  # noqa: E402

_where = os.path.abspath(os.path.dirname(fxpmath.__file__))
if os.path.dirname(_where) != REPO:
    raise RuntimeError('HARNESS-ERROR: fxpmath imported from %s, wanted %s' % (_where, REPO))

np.seterr(all='ignore')
