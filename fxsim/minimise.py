"""Delta-debugging of a failing program (DESIGN 3.6).

A candidate is accepted only if it still fails with the same violation class
(property, clause, culprit).  Any subsequence of a program is a program, so plain ddmin applies;
afterwards arguments are simplified op by op.
"""
import copy
import json

from .run import replay_ops, digest_of
from .pool import forked


def vclass(v):
    return (v['property'], v['clause'], v['culprit'])


def _isolated_eval(args):
    prop, ops, prelude = args
    try:
        w = replay_ops(prop, ops, prelude)
    except Exception:
        return None
    if not w.violations:
        return None
    return (vclass(w.violations[0]), sum(1 for e in w.log if e[1] == 0))


class Minimiser(object):
    def __init__(self, prop, cls, budget=600, prelude=()):
        self.prop = prop
        self.cls = cls
        self.budget = budget
        self.execs = 0
        self.prelude = [list(p) for p in prelude]

    def fails(self, ops, prelude=None):
        """Truthy iff the program still fails with the same class.  With a prelude every
        evaluation runs in its own forked process (the prelude exists because state leaks)."""
        if self.execs >= self.budget:
            return None
        self.execs += 1
        pre = self.prelude if prelude is None else prelude
        if pre:
            r = forked(_isolated_eval, [(self.prop, ops, pre)], 1, 600)[0]
            if r is not None and r[0] == self.cls:
                return _Shim(r[1])
            return None
        try:
            w = replay_ops(self.prop, ops)
        except Exception:
            return None
        if w.violations and vclass(w.violations[0]) == self.cls:
            return w
        return None

    def shrink_prelude(self, ops):
        """Drop whole preceding runs, then ops inside the remaining ones."""
        pre = self.prelude
        n = 2
        while len(pre) >= 1 and self.execs < self.budget:
            chunk = max(1, len(pre) // n)
            reduced = False
            for start in range(0, len(pre), chunk):
                cand = pre[:start] + pre[start + chunk:]
                if self.fails(ops, cand) is not None:
                    pre = cand
                    n = max(n - 1, 2)
                    reduced = True
                    break
            if not reduced:
                if chunk == 1:
                    break
                n = min(len(pre), n * 2)
        for k in range(len(pre)):
            run = pre[k]
            j = 0
            while j < len(run) and self.execs < self.budget:
                cand = pre[:k] + [run[:j] + run[j + 1:]] + pre[k + 1:]
                if self.fails(ops, cand) is not None:
                    run = run[:j] + run[j + 1:]
                    pre = cand
                else:
                    j += 1
        self.prelude = [p for p in pre if p]
        return self.prelude

    def truncate(self, ops):
        """Drop everything after the op during which the violation was raised."""
        w = self.fails(ops)
        if w is None:
            return ops
        n = sum(1 for e in w.log if e[1] == 0)
        # the log holds one entry per executed top-level op (skipped ones included)
        return ops[:max(1, n)]

    def ddmin(self, ops):
        n = 2
        while len(ops) >= 2 and self.execs < self.budget:
            chunk = max(1, len(ops) // n)
            reduced = False
            for start in range(0, len(ops), chunk):
                cand = ops[:start] + ops[start + chunk:]
                if cand and self.fails(cand) is not None:
                    ops = cand
                    n = max(n - 1, 2)
                    reduced = True
                    break
            if not reduced:
                if chunk == 1:
                    break
                n = min(len(ops), n * 2)
        return ops

    # -------------------------------------------------------------- argument simplification
    def simpler_vals(self, spec):
        out = []
        k = spec[0]
        if k in ('l', 't') and spec[1]:
            out.append(spec[1][0])
            if len(spec[1]) > 1:
                out.append([k, spec[1][:1]])
                out.append([k, spec[1][1:]])
        if k == 'a' and spec[3]:
            n, e = spec[3][0]
            out.append(['f', n, e])
            if len(spec[3]) > 1:
                out.append(['a', spec[1], [1], [spec[3][0]]])
        if k in ('n', 's'):
            n, e = spec[-2], spec[-1]
            out.append(['f', n, e])
        if k == 'f':
            n, e = spec[1], spec[2]
            if e >= 0 and abs(n) < (1 << 60):
                out.append(['i', n * (1 << e)])
        if k in ('i', 'f', 'n', 's'):
            out.extend([['i', 0], ['i', 1], ['i', -1]])
        return [o for o in out if o != spec]

    def candidates(self, op):
        """Simpler variants of one op."""
        out = []

        def variant(**ch):
            o = copy.deepcopy(op)
            for k, v in ch.items():
                if v is _DEL:
                    o.pop(k, None)
                else:
                    o[k] = v
            out.append(o)
        for k in ('ncb', 'via', 'dtype', 'sizing', 'method', 'out', 'out_like', 'reflected', 'axis'):
            if k in op and op[k] is not None:
                variant(**{k: _DEL})
        if op.get('kw'):
            variant(kw={})
            for k in list(op['kw']):
                kw = dict(op['kw'])
                del kw[k]
                variant(kw=kw)
        for key in ('val',):
            if isinstance(op.get(key), list):
                for s in self.simpler_vals(op[key]):
                    variant(**{key: s})
        for key in ('src', 'b'):
            if isinstance(op.get(key), dict) and 'val' in op[key]:
                for s in self.simpler_vals(op[key]['val']):
                    variant(**{key: {'val': s}})
        if op.get('op') == 'cont_new' and isinstance(op.get('spec'), list):
            for s in self.simpler_vals(op['spec']):
                if s[0] in ('l', 't', 'a'):
                    variant(spec=s)
        if op.get('op') == 'cb_arm' and op.get('ops'):
            variant(ops=[])
            if len(op['ops']) > 1:
                variant(ops=op['ops'][:1])
                variant(ops=op['ops'][1:])
        if isinstance(op.get('fmt'), list) and len(op['fmt']) == 3 and op.get('op') in ('new', 'new_from', 'resize', 'new_cont'):
            s, w, f = op['fmt']
            for cand in ([s, 8, 2], [s, 4, 0], [True, 8, 2], [s, w, 0] if w else None,
                         [s, (w + 1) // 2, (f or 0) // 2] if w and w > 2 else None):
                if cand is not None and cand != op['fmt'] and 'dtype' not in op:
                    variant(fmt=cand)
        for key in ('slot', 'a', 'src', 'like', 'tpl', 'reg', 'c'):
            if isinstance(op.get(key), int) and op[key] > 0:
                variant(**{key: 0})
                if op[key] > 1:
                    variant(**{key: 1})
        return out

    def simplify_args(self, ops):
        changed = True
        rounds = 0
        while changed and self.execs < self.budget and rounds < 4:
            changed = False
            rounds += 1
            for idx in range(len(ops)):
                for cand in self.candidates(ops[idx]):
                    if self.execs >= self.budget:
                        return ops
                    trial = ops[:idx] + [cand] + ops[idx + 1:]
                    if self.fails(trial) is not None:
                        ops = trial
                        changed = True
                        break
        return ops

    def run(self, ops):
        ops = self.truncate(list(ops))
        ops = self.ddmin(ops)
        ops = self.simplify_args(ops)
        ops = self.ddmin(ops)
        return ops


_DEL = object()


class _Shim(object):
    """What truncate() needs from a world when the evaluation ran in another process."""
    def __init__(self, n_top):
        self.log = [(0, 0)] * n_top


def minimise(prop, ops, violation, budget=600):
    m = Minimiser(prop, vclass(violation), budget)
    small = m.run(ops)
    w = replay_ops(prop, small)
    if not w.violations or vclass(w.violations[0]) != m.cls:
        # minimisation must never lose the failure; fall back to the original program
        small = list(ops)
        w = replay_ops(prop, small)
    v = w.violations[0] if w.violations else None
    return small, v, digest_of(w), m.execs


def _min_child(args):
    prop, ops, violation, budget = args
    return minimise(prop, ops, violation, budget)


def minimise_isolated(prop, ops, violation, budget=600):
    """minimise() in a forked child, so that the parent never executes library code."""
    return forked(_min_child, [(prop, ops, violation, budget)], 1, 3600)[0]


def minimise_with_prelude(prop, ops, prelude, violation, budget=400):
    m = Minimiser(prop, vclass(violation), budget, prelude)
    pre = m.shrink_prelude(ops)
    small = m.ddmin(m.truncate(list(ops)))
    if m.fails(small, pre) is None:
        small = list(ops)
    return small, pre, m.execs


def jsonable(x):
    return json.loads(json.dumps(x, default=repr))
