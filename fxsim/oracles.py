"""The four oracles (DESIGN section 5).  Each sees every step (including steps nested inside
callbacks) through before()/after() and reports through world.violation()."""
from fractions import Fraction
import json
import re

import numpy as np

from .lib import Fxp, Config
from . import quant as Q
from . import values as V
from .engine import codes_of, REG_FIELDS

FLAGS = ('overflow', 'underflow', 'inaccuracy')


def allowed_set(st):
    out = set(st.wset)
    out |= set(st.new)
    for n in st.nested:
        out |= allowed_set(n)
        if 'dropped' in n.extra:
            out.add(n.extra['dropped'])
    return out


def obj_array(flat, shape):
    a = np.empty(len(flat), dtype=object)
    a[:] = flat
    return a.reshape(shape)


def region_codes(obj, region):
    a = np.asarray(obj.val)
    if region is None:
        return a
    if isinstance(region, tuple) and len(region) == 2 and region and st_chain(region):
        return a[region[0]][region[1]]
    return a[region]


def st_chain(region):
    return False


class Oracle(object):
    prop = None

    def before(self, w, st):
        pass

    def after(self, w, st):
        pass


# ====================================================================================== C20
# documented defaults of a Config (docs/config.md; README "config" section)
CONFIG_DEFAULTS = {
    'max_error': 1 / 2 ** 63, 'n_word_max': 64, 'overflow': 'saturate', 'rounding': 'trunc', 'shifting': 'expand',
    'op_method': 'raw', 'op_input_size': 'same', 'op_out': None, 'op_out_like': None, 'op_sizing': 'optimal',
    'const_op_sizing': 'same', 'array_output_type': 'fxp', 'array_op_out': None, 'array_op_out_like': None,
    'array_op_method': 'repr', 'dtype_notation': 'fxp', 'bin_prefix': None, 'hex_prefix': '0x',
}


class C20(Oracle):
    prop = 'C20'
    IGNORE = ('cbs',)
    wants_shadow = True

    def diff(self, a, b):
        for k in a:
            if k in self.IGNORE:
                continue
            if k == 'cfg':
                for (f, x), (_, y) in zip(a[k], b[k]):
                    if not same(x, y):
                        return 'config.' + f, x, y
            elif k == 'dtype':
                # the cached format string may be re-spelled lazily in the notation the config names
                # by now (get_dtype() refreshes it); what it DENOTES must not change
                if not same(a[k], b[k]) and (parse_dtype(a[k]) is None or parse_dtype(a[k]) != parse_dtype(b[k])):
                    return k, a[k], b[k]
            elif not same(a[k], b[k]):
                return k, a[k], b[k]
        return None

    def after(self, w, st):
        if st.outcome == 'skipped':
            return
        allowed = allowed_set(st)
        culprit = culprit_of(st)
        # -- rejected configuration values (F1)
        if st.expect_reject and st.outcome == 'ok':
            w.violation('C20', 'invalid-config-accepted', st,
                        {'field': st.op.get('field'), 'value': repr(st.op.get('value'))}, culprit)
            return
        # -- frame condition
        for i, pre in st.pre.items():
            if i in allowed or not w.slots[i].alive:
                continue
            d = self.diff(pre, w.snap_obj(w.slots[i].obj))
            if d is not None:
                w.violation('C20', 'frame', st,
                            {'slot': i, 'slot_origin': w.slots[i].origin, 'field': d[0],
                             'before': short(d[1]), 'after': short(d[2]),
                             'write_set': sorted(st.wset), 'outcome': st.outcome}, culprit)
                return
        # -- a write interleaved with writes on OTHER objects (re-entrant callback) ends exactly as
        #    the same write does without the interleaving
        sh = st.extra.get('shadow')
        if sh is not None and st.outcome == 'ok' and w.slots[st.dest].alive:
            a, b = w.snap_obj(w.slots[st.dest].obj), w.snap_obj(sh)
            for k in ('fmt', 'codes', 'status', 'n_int', 'upper', 'lower', 'precision', 'dtype'):
                if not same(a[k], b[k]):
                    w.violation('C20', 'reentrancy-interference', st,
                                {'field': k, 'with_interleaved_writes': short(a[k]),
                                 'same_write_alone': short(b[k]), 'callback_site': st.extra.get('f4_site'),
                                 'nested_ops': [n.op['op'] for n in st.nested]}, culprit)
                    return
        # -- write-through of indexed writes
        if st.kind == 'indexed' and st.outcome == 'ok' and st.wthrough is not None and not st.nested:
            r = self.check_wthrough(w, st)
            if r is not None:
                w.violation('C20', 'write-through', st, r, culprit)
                return
        # -- an indexed write (or an in-place sort) stores INTO the buffer: afterwards the object still
        #    shares it with every view that overlapped it before (asked of the real arrays here, but only
        #    for pairs the MODEL holds to be aliases)
        if st.kind == 'indexed' and st.outcome in ('ok', 'rejected') and st.dest is not None and \
                w.slots[st.dest].alive and not st.nested and not st.extra.get('selfwrites'):
            # (also when the library rejected the store: whatever it did before it gave up, the views taken
            #  earlier must go on writing through afterwards)
            pa = st.extra.get('pre_alias', {})
            if st.dest in pa:
                tok, dpos = pa[st.dest]
                dset = set(dpos.ravel().tolist())
                dv = w.slots[st.dest].obj.val
                for m, (t, pos) in pa.items():
                    if m == st.dest or t != tok or not w.slots[m].alive or w.slots[m].token != w.slots[st.dest].token:
                        continue
                    mv = w.slots[m].obj.val
                    if isinstance(dv, np.ndarray) and isinstance(mv, np.ndarray) and dv.dtype.kind != 'O' and \
                            mv.dtype.kind != 'O' and dv.size and mv.size and (dset & set(pos.ravel().tolist())) and \
                            not np.shares_memory(dv, mv):
                        w.violation('C20', 'write-through', st,
                                    {'what': 'an in-place write detached the object from a view that overlaps it',
                                     'slot': st.dest, 'view': m}, culprit)
                        return
        # -- a scalar stored through an index lands on EVERY element the index selects (NumPy's
        #    broadcast): whatever code it quantizes to, the whole written region holds that one code
        #    (no value is predicted: the region is only compared with itself)
        if st.kind == 'indexed' and st.outcome == 'ok' and st.wthrough and not st.nested and \
                st.op['op'] == 'setitem' and isinstance(st.op.get('val'), list) and \
                st.op['val'][0] in ('i', 'f', 'n', 's', 'd') and w.slots[st.dest].alive and \
                not st.extra.get('selfwrites') and 'selfreset_at' not in st.extra:
            dpos = st.extra['pre_alias'][st.dest][1].ravel().tolist()
            _, _, dflat = codes_of(w.slots[st.dest].obj)
            if len(dpos) == len(dflat):
                got = [c for p_, c in zip(dpos, dflat) if p_ in st.wthrough]
                if got and not all(same(c, got[0]) for c in got):
                    w.violation('C20', 'write-through', st,
                                {'what': 'a scalar stored through an index did not reach every selected element',
                                 'index': repr(st.op.get('index')), 'region_holds': short(got)}, culprit)
                    return
                w.bump('scalar_indexed_store_region_uniform')
        # -- chained assignment x[i][j] = v: the transient view and the root agree afterwards
        t = st.extra.get('chain_transient')
        if t is not None and st.outcome == 'ok' and st.wthrough is not None and isinstance(st.index, tuple):
            try:
                via_t = np.asarray(np.asarray(t.val)[st.index[1]]).ravel().tolist()
                via_x = np.asarray(np.asarray(w.slots[st.dest].obj.val)[st.index[0]][st.index[1]]).ravel().tolist()
            except Exception:
                via_t = via_x = None
            if via_t is not None and not (len(via_t) == len(via_x) and all(same(a, b) for a, b in zip(via_t, via_x))):
                w.violation('C20', 'write-through', st,
                            {'what': 'x[i][j] = v did not reach x', 'i': repr(st.index[0]), 'j': repr(st.index[1]),
                             'root_holds': short(via_x), 'transient_view_holds': short(via_t)}, culprit)
                return
            w.bump('chained_setitem_root_checked')
        # -- a derivation returns a NEW object: handing back an object that already exists (the source
        #    itself, say) ties the 'result' to it in everything - config, status, buffer
        if st.outcome == 'ok' and st.kind in ('derive', 'construct') and st.reg_expected is None and \
                isinstance(st.ret, Fxp) and not st.new and st.ret_slot is not None and \
                not st.extra.get('shallow') and st.op['op'] not in ('shallow', 'acc_copy'):
            w.violation('C20', 'shared-identity', st,
                        {'what': 'the operation returned an object that already existed instead of a new one',
                         'returned_slot': st.ret_slot, 'sources': list(st.srcs)}, culprit)
            return
        # -- structure of new objects
        if st.outcome == 'ok':
            for n in st.new:
                if w.slots[n].origin in ('register-copy', 'shallow') or st.extra.get('shallow'):
                    continue
                r = self.check_structure(w, n, st)
                if r is not None:
                    w.violation('C20', 'shared-' + r[0], st, r[1], culprit)
                    return
        # -- a result register that has just been written owns its buffer: it shares memory with no
        #    object the model does not hold to be its alias (an operand, say)
        if st.reg_expected is not None and st.outcome == 'ok' and st.dest is not None and w.slots[st.dest].alive:
            R = w.slots[st.dest]
            rv = R.obj.val
            if isinstance(rv, np.ndarray) and rv.dtype.kind != 'O' and rv.size:
                for j in w.live():
                    O = w.slots[j]
                    ov = O.obj.val
                    if j == st.dest or O.token == R.token or not isinstance(ov, np.ndarray) or \
                            ov.dtype.kind == 'O' or not ov.size:
                        continue
                    if np.shares_memory(rv, ov):
                        w.violation('C20', 'shared-value-buffer', st,
                                    {'what': 'the result register shares its value buffer with another object',
                                     'register': st.dest, 'other': j, 'other_origin': O.origin}, culprit)
                        return
        # -- the copy of an accumulator accumulates into itself, not into the original
        if st.extra.get('acc_shared') is not None and st.outcome == 'ok':
            w.violation('C20', 'shared-register', st,
                        {'what': 'the copy of an object that is its own result register still names the ORIGINAL as register',
                         'field': st.extra['acc_shared']}, culprit)
            return
        # -- a snapshot taken with np.array(x) is the caller's own array
        if st.extra.get('export_aliases') is not None and st.outcome == 'ok':
            w.violation('C20', 'aliases-caller-array', st,
                        {'what': 'np.array(x) returned an array sharing memory with x', 'slot': st.extra['export_aliases']},
                        culprit)
            return
        # -- an index list / array / mask is the caller's too
        if st.extra.get('index_mutated') is not None:
            w.violation('C20', 'container-mutated', st,
                        {'what': 'the index object passed by the caller was modified', 'now': st.extra['index_mutated'],
                         'given': repr(st.op.get('index'))}, culprit)
            return
        # -- caller-owned containers
        ck = st.extra.get('container')
        if ck is not None and st.outcome == 'ok' and isinstance(w.containers[ck][0], np.ndarray):
            tgt = st.ret if st.op['op'] == 'new_cont' or (st.op['op'] == 'arith' and st.dest is None) \
                else (w.slots[st.dest].obj if st.dest is not None else None)
            tv = getattr(tgt, 'val', None)
            if isinstance(tv, np.ndarray) and tv.dtype.kind != 'O' and np.shares_memory(tv, w.containers[ck][0]):
                w.violation('C20', 'aliases-caller-array', st, {'container': ck}, culprit)
                return
        for ci, (c, pristine) in enumerate(w.containers):
            if not V.same_container(c, pristine):
                w.violation('C20', 'container-mutated', st,
                            {'container': ci, 'before': V.describe_container(pristine),
                             'after': V.describe_container(c)}, culprit)
                return
        # -- caller-owned Config objects are inputs too: never modified by the library
        for ci, c in enumerate(w.configs):
            now = w.snap_cfg(c)
            if ci < len(w.config_pristine) and not same(now, w.config_pristine[ci]):
                d = [(a[0], a[1], b[1]) for a, b in zip(w.config_pristine[ci], now) if not same(a, b)]
                w.violation('C20', 'caller-config-mutated', st,
                            {'config': ci, 'field': d[0][0] if d else None,
                             'before': short(d[0][1]) if d else None, 'after': short(d[0][2]) if d else None}, culprit)
                return
        # -- no global template in force, no configuration handed over: the new object has the
        #    documented defaults (docs/config.md), overridden by the keywords of the call only - whatever
        #    templates were in force earlier in the life of the process
        if st.op['op'] == 'new' and st.outcome == 'ok' and isinstance(st.ret, Fxp) and st.depth == 0 and \
                st.extra.get('tpl') is None and st.extra.get('cfg_tpl') is None and 'cfg' not in st.extra:
            want_cfg = dict(CONFIG_DEFAULTS)
            for k_, v_ in (st.op.get('kw') or {}).items():
                if k_ in want_cfg:
                    want_cfg[k_] = v_
            for f_ in sorted(want_cfg):
                got_ = getattr(st.ret.config, '_' + f_, None)
                if not same(got_, want_cfg[f_]):
                    w.violation('C20', 'global-template', st,
                                {'what': 'object built with no template in force does not have the default configuration',
                                 'field': f_, 'got': repr(got_), 'default_or_keyword': repr(want_cfg[f_])}, culprit)
                    return
            w.bump('plain_constructor_defaults_checked')
        # -- process-global template
        want = None if w.template is None else w.slots[w.template].obj
        wantc = None if w.cfg_template is None else w.configs[w.cfg_template]
        if Fxp.template is not want or Config.template is not wantc:
            w.violation('C20', 'global-template', st, {'expected_slot': w.template,
                                                       'expected_config': w.cfg_template}, culprit)

    def check_structure(self, w, n, st=None):
        N = w.slots[n]
        # a freshly derived object owns private copies of the result registers named in the
        # configuration it inherited; pointing at a register somebody else can reach means a later
        # operation on either side lands in the same object
        fresh = set(st.new) if st is not None else {n}
        for f in REG_FIELDS:
            r = getattr(N.obj.config, '_' + f, None)
            if isinstance(r, Fxp):
                k = w.slot_any(r)
                if k is not None and k not in fresh:
                    return 'register', {'new': n, 'field': f, 'register_slot': k,
                                        'register_origin': w.slots[k].origin}
                for c in w.configs:
                    if getattr(c, '_' + f, None) is r:
                        return 'register', {'new': n, 'field': f, 'shared_with': 'caller-owned Config'}
        for c in w.configs:
            if N.obj.config is c:
                return 'config', {'new': n, 'other': 'caller-owned Config'}
        for j in w.live():
            if j == n:
                continue
            O = w.slots[j]
            if N.obj.config is O.obj.config:
                return 'config', {'new': n, 'other': j, 'other_origin': O.origin}
            if N.obj.status is O.obj.status:
                return 'status', {'new': n, 'other': j, 'other_origin': O.origin}
            nv, ov = N.obj.val, O.obj.val
            if isinstance(nv, np.ndarray) and isinstance(ov, np.ndarray) and \
                    nv.dtype.kind != 'O' and ov.dtype.kind != 'O':
                # (object-dtype storage = words of 64+ bits, outside the core domain: its elements
                # are Python objects that NumPy may hand out by reference)
                sh = np.shares_memory(nv, ov)
                if N.token != O.token and sh:
                    return 'value-buffer', {'new': n, 'other': j, 'other_origin': O.origin}
                if N.token == O.token and nv.size and ov.size and not sh and \
                        set(N.pos.ravel().tolist()) & set(O.pos.ravel().tolist()):
                    return 'view-not-shared', {'new': n, 'other': j}
        return None

    def check_wthrough(self, w, st):
        d = st.dest
        affected = st.wthrough
        pre_alias = st.extra['pre_alias']
        dobj = w.slots[d].obj
        dsh, _, dflat = codes_of(dobj)
        dpos = pre_alias[d][1].ravel().tolist()
        if len(dpos) != len(dflat):
            return {'what': 'destination changed shape', 'slot': d}
        by_pos = dict(zip(dpos, dflat))
        tok = pre_alias[d][0]
        for m, (t, pos) in pre_alias.items():
            if t != tok or not w.slots[m].alive:
                continue
            pre = st.pre[m]
            post = w.snap_obj(w.slots[m].obj)
            if m != d:
                for k in ('fmt', 'status', 'cfg', 'scale', 'bias'):
                    if not same(pre[k], post[k]):
                        return {'what': 'alias-group member changed other than in its values',
                                'slot': m, 'field': k}
            if pre['codes'][0] != post['codes'][0]:
                return {'what': 'shape changed', 'slot': m}
            mpos = pos.ravel().tolist()
            for e, p in enumerate(mpos):
                if p in affected:
                    want = by_pos.get(p, None)
                    if p not in by_pos:
                        continue
                else:
                    want = pre['codes'][2][e]
                got = post['codes'][2][e]
                if not same(want, got):
                    return {'what': 'element %d of slot %d (root position %d) is %r, expected %r'
                            % (e, m, p, got, want), 'slot': m, 'written': p in affected}
        return None


def same(a, b):
    if type(a) is not type(b):
        if isinstance(a, (int, float)) and isinstance(b, (int, float)) and \
                not isinstance(a, bool) and not isinstance(b, bool):
            return a == b
        return False
    if isinstance(a, float):
        return a == b or (a != a and b != b)
    if isinstance(a, (tuple, list)):
        return len(a) == len(b) and all(same(x, y) for x, y in zip(a, b))
    try:
        return bool(a == b)
    except Exception:
        return a is b


def short(x, n=160):
    s = repr(x)
    return s if len(s) <= n else s[:n] + '...'


def culprit_of(st):
    return culprit_of_op(st.op)


def culprit_of_op(op):
    k = op['op']
    if k in ('arith', 'reduce'):
        return '%s:%s' % (k, op.get('route', 'op' if k == 'arith' else 'method'))
    if k in ('unary', 'bitwise', 'shallow', 'npfunc'):
        return '%s:%s' % (k, op.get('f'))
    if k == 'call':
        return 'call:' + op.get('via', 'call')
    if k == 'config_set':
        return 'config_set:%s:%s' % (op.get('via', 'config'), 'valid' if op.get('valid', True) else 'invalid')
    if k == 'new' and op.get('val') is not None:
        return 'new:' + op['val'][0]
    return k


# ====================================================================================== C02
_FXP_RE = re.compile(r'^fxp-(s|u)(\d+)/([+-]?\d+)(-complex)?$')
_Q_RE = re.compile(r'^(Q|UQ)([+-]?\d+)\.([+-]?\d+)$')


def parse_dtype(s):
    m = _FXP_RE.match(s)
    if m:
        return m.group(1) == 's', int(m.group(2)), int(m.group(3)), bool(m.group(4))
    m = _Q_RE.match(s)
    if m:
        nf = int(m.group(3))
        return m.group(1) == 'Q', int(m.group(2)) + nf, nf, False
    return None


def is_int(c):
    return type(c) is int or (isinstance(c, (np.integer,)) and not isinstance(c, np.bool_))


def wellformed(obj, fresh=False):
    """None if obj satisfies C02 clauses 1-4, else (clause, detail).  (`fresh` is kept for callers:
    limits of affinely scaled objects used to be judged on freshly constructed objects only; they are
    judged always now - see DESIGN section 8, defect 3ef5762.)"""
    s, nw, nf = obj.signed, obj.n_word, obj.n_frac
    if not (isinstance(s, (bool, np.bool_)) or s in (0, 1)) or not is_int(nw) or not is_int(nf) or nw < 0:
        return 'format', {'signed': repr(s), 'n_word': repr(nw), 'n_frac': repr(nf)}
    s = bool(s)
    lo, hi = Q.bounds(s, nw)
    sh, kind, flat = codes_of(obj)
    is_complex = kind == 'c' or obj.vdtype == complex or any(isinstance(c, complex) for c in flat)
    # clause 1 is judged on core-domain formats only (the property's quantifier); wider words
    # (results of growing arithmetic, the 64-70 bit slice) are judged on their metadata alone
    for c in (flat if nw <= 52 else ()):
        if isinstance(c, np.ndarray) and c.ndim == 0:
            c = c.item()    # an indexed store into object-dtype storage wraps the element; still one integer
        parts = (c.real, c.imag) if isinstance(c, complex) else (c,)
        for p in parts:
            if isinstance(p, float):
                if p != p or p != int(p) or not is_complex:
                    return 'codes-integer', {'code': repr(c), 'dtype_kind': kind}
                p = int(p)
            elif not is_int(p):
                return 'codes-integer', {'code': repr(c), 'type': type(p).__name__}
            if not (lo <= p <= hi):
                return 'codes-range', {'code': int(p), 'lo': lo, 'hi': hi, 'fmt': [s, nw, nf]}
    if obj.n_int != nw - nf - (1 if s else 0):
        return 'n_int', {'n_int': obj.n_int, 'fmt': [s, nw, nf]}
    # upper / lower / precision
    scale = Fraction(obj.scale) if obj.scale is not None else Fraction(1)
    bias = Fraction(obj.bias) if obj.bias is not None else Fraction(0)
    scaled = scale != 1 or bias != 0
    if hi.bit_length() <= 53 and abs(nf) < 1000:
        for name, code, use_bias in (('upper', hi, True), ('lower', lo, True), ('precision', 1, False)):
            got = getattr(obj, name)
            want = Q.unscale(code, nf)
            if scaled:
                want = want * scale + (bias if use_bias else 0)
            parts = (got.real, got.imag) if isinstance(got, complex) else (got,)
            if isinstance(got, complex) and not is_complex:
                return name, {'got': repr(got), 'complex_on_real_object': True}
            for p in parts:
                try:
                    ok = Fraction(p) == want
                    if not ok and scaled:
                        # scale*limit+bias is evaluated in doubles by the library; accept exactly
                        # that rounding of the exact unscaled limit (wide words under a scaled template)
                        u = float(Q.unscale(code, nf))
                        ok = p == (float(scale) * u + (float(bias) if use_bias else 0.0))
                except (TypeError, ValueError, OverflowError):
                    ok = False
                if not ok:
                    return name, {'got': repr(got), 'want': str(want), 'fmt': [s, nw, nf]}
    # dtype string
    d = obj.dtype
    p = parse_dtype(d) if isinstance(d, str) else None
    if p is None:
        return 'dtype', {'dtype': repr(d), 'fmt': [s, nw, nf]}
    if (p[0], p[1], p[2]) != (s, nw, nf):
        return 'dtype', {'dtype': d, 'fmt': [s, nw, nf]}
    if p[3] and not is_complex:
        return 'dtype', {'dtype': d, 'complex_suffix_on_real': True}
    return None


class C02(Oracle):
    prop = 'C02'

    def after(self, w, st):
        if st.outcome == 'skipped':
            return
        culprit = culprit_of(st)
        busy = w.inflight()     # objects whose write is still in progress (we are inside their callback)
        if st.outcome != 'ok' and st.dest is not None and not st.expect_reject and \
                not (w.performed_before_abort(st) and not w.strict_abandon):
            busy = set(busy) | {st.dest}    # aborted in place: abandoned, not judged (DESIGN 3.4)
        objs = [(('slot', i), w.slots[i].obj) for i in w.live() if i not in busy]
        if isinstance(st.ret, Fxp) and w.slot_of(st.ret) is None and st.outcome == 'ok':
            objs.append((('returned',), st.ret))
        if st.outcome == 'ok':
            for t in st.transients:
                if isinstance(t, Fxp):
                    objs.append((('transient',), t))
        for who, o in objs:
            r = wellformed(o, fresh=(st.op['op'] == 'new' and o is st.ret and st.outcome == 'ok'))
            if r is not None:
                origin = w.slots[who[1]].origin if who[0] == 'slot' else who[0]
                det = dict(r[1])
                det.update({'object': list(who), 'origin': origin})
                # attribute the blame to the op that produced the object when it is this step's
                w.violation('C02', r[0], st, det, culprit)
                return
        self.saturation(w, st, culprit)

    def saturation(self, w, st, culprit):
        """Clause 5: under saturate an out-of-range input is stored as the bound on its own side."""
        sto = st.store
        if st.extra.get('selfwiden'):
            return      # the handler changed the format in mid-conversion: no value is predicted (F10)
        if sto is not None and sto.src is not None and sto.route in CONV_ROUTES and st.outcome == 'ok':
            self.saturation_of_conversion(w, st, culprit)
            return
        if sto is None or sto.route not in ('ctor', 'call', 'set_val', 'setitem', 'set_val_raw'):
            return
        if sto.raw and sto.route not in ('ctor', 'set_val_raw'):
            return
        val = st.extra.get('val')
        if val is None or V.is_string_spec(val) or val[0] == 'x':
            return
        if st.outcome == 'aborted':
            return
        if sto.target == 'dest':
            pre = st.pre[st.dest]
            s, nw, nf = pre['fmt']
            cfg = dict(pre['cfg'])
            ovf_mode, rounding = cfg['overflow'], cfg['rounding']
            scaled = (pre['scale'] not in (None, 1)) or (pre['bias'] not in (None, 0))
            tgt = w.slots[st.dest].obj if w.slots[st.dest].alive else None
        else:
            s, nw, nf = sto.fmt_req
            if s is None or nw is None or nf is None or st.extra.get('tpl') is not None:
                return
            kw = sto.kw_modes or {}
            ovf_mode, rounding = kw.get('overflow', 'saturate'), kw.get('rounding', 'trunc')
            scaled = kw.get('scale', 1) != 1 or kw.get('bias', 0) != 0
            tgt = st.ret if isinstance(st.ret, Fxp) else None
            if tgt is not None:
                ovf_mode, rounding = tgt.config.overflow, tgt.config.rounding
            elif st.extra.get('cfg') is not None or w.cfg_template is not None:
                return
        if ovf_mode != 'saturate' or nf < 0 or scaled or s is None or nw > 52 or nf > nw + 8:
            return
        sh, flat = V.exact(val, (s, nw, nf))
        lo, hi = Q.bounds(s, nw)
        sides = []
        if sto.raw and not all(v.denominator == 1 for v in flat):
            return
        for v in flat:
            # (a raw store hands over the code itself: an out-of-range code is an out-of-range input)
            r = int(v) if sto.raw else Q.rnd(Q.scale(v, nf), rounding)
            sides.append(hi if r > hi else lo if r < lo else None)
        if all(x is None for x in sides):
            return
        w.bump('sat_store_checked')
        if any(abs(v) >= (1 << 64) for v in flat):
            w.bump('sat_store_beyond_2_64')
        if st.outcome == 'rejected':
            if val[0] in ('i', 'f') and (sto.route != 'setitem' or st.wthrough is not None):
                w.violation('C02', 'saturation-raised', st,
                            {'exception': st.exc, 'value': str(flat[0]), 'fmt': [s, nw, nf]}, culprit)
            return
        if tgt is None:
            return
        try:
            got = np.asarray(tgt.val)
            if sto.region is not None:
                got = got[sto.region]
            want = np.broadcast_to(obj_array(sides, sh), np.shape(got))
        except Exception:
            return
        gl = np.asarray(got).ravel().tolist()
        wl = np.asarray(want, dtype=object).ravel().tolist()
        for g, x in zip(gl, wl):
            if x is not None and not same(g, x):
                w.violation('C02', 'saturation-side', st,
                            {'stored': repr(g), 'expected_bound': x, 'fmt': [s, nw, nf],
                             'value': [str(v) for v in flat][:6]}, culprit)
                return


    def saturation_of_conversion(self, w, st, culprit):
        """Clause 5 for inputs that are fixed-point objects: a source value that does not fit the
        (saturating) destination lands on the bound of its own side, by every conversion route."""
        sto = st.store
        sp = st.pre.get(sto.src)
        if sp is None:
            return
        if sto.target == 'dest':
            if st.dest is None or not w.slots[st.dest].alive:
                return
            tgt = w.slots[st.dest].obj
        else:
            tgt = st.ret
        if not isinstance(tgt, Fxp) or tgt.scaled or sp['scale'] not in (None, 1) or sp['bias'] not in (None, 0):
            return
        if getattr(tgt.config, 'overflow', None) != 'saturate':
            return
        s, nw, nf = bool(tgt.signed), tgt.n_word, tgt.n_frac
        ssh, kind, sflat = sp['codes']
        snf = sp['fmt'][2]
        if nw > 52 or sp['fmt'][1] > 52 or nf < 0 or nf > nw + 8 or abs(nf - snf) > 62 or kind not in 'iuO' or \
                not all(type(c) is int for c in sflat):
            return
        a = obj_array(sflat, ssh)
        if sto.src_index is not None:
            try:
                a = np.asarray(a[sto.src_index], dtype=object)
            except Exception:
                return
        sl = np.asarray(a, dtype=object).ravel().tolist()
        lo, hi = Q.bounds(s, nw)
        rounding = tgt.config.rounding
        sides = []
        for c in sl:
            r_ = Q.rnd(Q.scale(Q.unscale(c, snf), nf), rounding)
            sides.append(hi if r_ > hi else lo if r_ < lo else None)
        if all(x is None for x in sides):
            return
        try:
            got = np.asarray(tgt.val)
            if sto.region is not None:
                got = got[sto.region]
            want = np.broadcast_to(obj_array(sides, tuple(np.shape(a))), np.shape(got))
        except Exception:
            return
        w.bump('sat_conversion_checked')
        for g, x in zip(np.asarray(got).ravel().tolist(), np.asarray(want, dtype=object).ravel().tolist()):
            if x is not None and not same(g, x):
                w.violation('C02', 'saturation-side', st,
                            {'stored': repr(g), 'expected_bound': x, 'fmt': [s, nw, nf], 'source_fmt': list(sp['fmt']),
                             'route': sto.route}, culprit)
                return


# ====================================================================================== C04
def status_dict(snap_status):
    return dict(snap_status) if isinstance(snap_status, tuple) else {}


def in_exact_float_domain(vals, nf, saturating=False):
    for v in vals:
        sc = Q.scale(v, nf)
        if saturating and abs(sc) >= (1 << 53):
            continue    # far beyond any <=52-bit word: saturates whatever the precision of intermediates
        if not V.float_ok(v):
            return False
        if abs(sc) >= (1 << 53) or abs(v) >= (1 << 53):
            return False
        if not V.float_ok(sc):
            return False
    return True


class C04(Oracle):
    prop = 'C04'

    def after(self, w, st):
        if st.outcome == 'skipped':
            return
        culprit = culprit_of(st)
        allowed = allowed_set(st)
        # ---- stickiness everywhere: no flag is ever lowered except by reset() on that object
        for i, pre in st.pre.items():
            if not w.slots[i].alive:
                continue
            o = w.slots[i].obj
            if not isinstance(o.status, dict):
                w.violation('C04', 'status-record', st, {'slot': i, 'status': repr(o.status)}, culprit)
                return
            if st.extra.get('reset') and i == st.dest:
                continue
            if 'selfreset_at' in st.extra and i == st.dest:
                continue        # its own callback reset it during the write (fault F8)
            if any((n.extra.get('reset') or 'selfreset_at' in n.extra) and n.dest == i for n in all_nested(st)):
                continue
            ps = status_dict(pre['status'])
            for f in FLAGS:
                if ps.get(f) and not o.status.get(f, False):
                    w.violation('C04', 'flag-lowered', st, {'slot': i, 'flag': f,
                                                              'origin': w.slots[i].origin}, culprit)
                    return
                if i not in allowed and not ps.get(f) and o.status.get(f, False):
                    # the iff read right to left: no write on this object in this step, so none of
                    # its flags may come up
                    w.violation('C04', 'flag-raised-without-write', st,
                                {'slot': i, 'flag': f, 'origin': w.slots[i].origin,
                                 'write_set': sorted(allowed)}, culprit)
                    return
        # ---- a callback is delivered only for writes on the object it was registered on
        fc = st.extra.get('foreign_cb')
        if fc is not None:
            w.violation('C04', 'callback-foreign-object', st,
                        {'callback': fc[0], 'site': fc[1], 'fired_for_slot': fc[2],
                         'registered_on_slot': fc[3]}, culprit)
            return
        cif = st.extra.get('ctor_inner_flags')
        if cif and st.outcome == 'ok' and isinstance(st.ret, Fxp) and isinstance(st.ret.status, dict):
            # a handler given with callbacks= wrote into the object while it was being built: what that
            # write raised (observed right after it) is still up when the constructor returns - nobody
            # called reset()
            for f_ in FLAGS:
                if cif.get(f_) and not st.ret.status.get(f_, False):
                    w.violation('C04', 'flag-lowered', st,
                                {'flag': f_, 'what': 'raised by a write made from a handler during construction, '
                                 'down when the constructor returned; reset() was never called'}, culprit)
                    return
            w.bump('c04_write_during_construction_judged')
        bw = st.extra.get('big_write')
        if bw is not None and st.outcome == 'ok':
            for site, n_ in bw['expected'].items():
                if bw['observed'].get(site, 0) != n_:
                    w.violation('C04', 'callback-' + site, st,
                                {'site': site, 'expected': n_, 'observed': bw['observed'].get(site, 0),
                                 'what': 'one write of %d elements' % bw['n']}, culprit)
                    return
            for f_, site in (('overflow', 'on_status_overflow'), ('underflow', 'on_status_underflow'),
                             ('inaccuracy', 'on_status_inaccuracy')):
                if bw['flags'][f_] != bool(bw['expected'][site]):
                    w.violation('C04', 'flag-' + f_, st, {'flag': f_, 'after': bw['flags'][f_],
                                                         'what': 'one write of %d elements' % bw['n']}, culprit)
                    return
        rc = st.extra.get('retired_cb')
        if rc is not None:
            w.violation('C04', 'callback-unregistered', st,
                        {'callback': rc[0], 'site': rc[1], 'fired_for_slot': rc[2],
                         'what': 'a callback the caller had taken out of the list was still notified'}, culprit)
            return
        if st.extra.get('reset') and st.outcome == 'ok':
            self.check_reset(w, st, culprit)
            return
        sto = st.store
        if sto is not None and st.outcome == 'rejected' and sto.target == 'dest' and st.dest is not None and \
                w.slots[st.dest].alive and st.kind != 'indexed' and st.extra.get('buffer_kept') and \
                st.dest in st.pre and not st.nested and not st.extra.get('selfwrites') and \
                'selfreset_at' not in st.extra:
            # A non-indexed write replaces the value buffer when it stores.  The operation was rejected
            # and the destination still holds the very buffer it had: nothing was stored, so no stored
            # element can differ from its input - the inaccuracy flag must not have come up.  (Overflow
            # and underflow are raised while the input is prepared, before the store, and are not judged
            # here; neither is a write whose Fxp source carries the flag: the library hands that on
            # while it reads the source.)
            o = w.slots[st.dest].obj
            src_has = sto.src is not None and sto.src in st.pre and \
                bool(status_dict(st.pre[sto.src]['status']).get('inaccuracy'))
            if isinstance(o.status, dict) and not src_has and \
                    not status_dict(st.pre[st.dest]['status']).get('inaccuracy') and o.status.get('inaccuracy'):
                w.violation('C04', 'flag-raised-without-write', st,
                            {'slot': st.dest, 'flag': 'inaccuracy', 'what': 'operation rejected before anything was stored',
                             'exception': st.exc, 'origin': w.slots[st.dest].origin}, culprit)
                return
            w.bump('c04_rejected_before_store_judged')
        if sto is None or st.outcome == 'rejected':
            return
        if sto.target == 'dest':
            if st.dest is None or not w.slots[st.dest].alive:
                return
            tgt = w.slots[st.dest].obj
            pre = st.pre[st.dest]
            pflags = status_dict(pre['status'])
            cfg = dict(pre['cfg'])
            cbs = pre['cbs']
            if st.kind == 'inplace' and sto.route.startswith('resize'):
                fmt = (tgt.signed, tgt.n_word, tgt.n_frac)
            else:
                fmt = pre['fmt'] if not sto.route.startswith('resize') else (tgt.signed, tgt.n_word, tgt.n_frac)
            if st.reg_expected is not None and st.ret is not tgt:
                return  # the library did not use the register we modelled; nothing to judge
        else:
            if not isinstance(st.ret, Fxp) or st.outcome != 'ok':
                return
            tgt = st.ret
            pflags = {f: False for f in FLAGS}
            cfg = {'rounding': tgt.config.rounding, 'overflow': tgt.config.overflow}
            cbs = ()
            fmt = (tgt.signed, tgt.n_word, tgt.n_frac)
        if tgt.scaled or not isinstance(tgt.status, dict):
            return
        s, nw, nf = fmt
        in_domain = nw <= 52 and -8 <= nf <= nw + 8
        # ---- exact input values of this write
        vals = None
        src_inacc = False
        if sto.vals is not None:
            vals = sto.vals
        elif st.extra.get('val') is not None:
            try:
                sh, flat = V.exact(st.extra['val'], fmt)
                if sto.raw:
                    flat = [Q.unscale(c, nf) for c in flat]
                vals = (sh, flat)
            except Exception:
                vals = None
        elif sto.src is not None and sto.src in st.pre:
            sp = st.pre[sto.src]
            sh, kind, flat = sp['codes']
            if kind in 'iuO' and all(type(c) is int for c in flat) and sp['scale'] in (None, 1) \
                    and sp['bias'] in (None, 0):
                a = obj_array([Q.unscale(c, sp['fmt'][2]) for c in flat], sh)
                if sto.src_index is not None:
                    try:
                        a = np.asarray(a[sto.src_index], dtype=object)
                    except Exception:
                        a = None
                if a is not None:
                    vals = (tuple(np.shape(a)), np.asarray(a, dtype=object).ravel().tolist())
            if sto.src != st.dest:
                src_inacc = bool(status_dict(sp['status']).get('inaccuracy'))
            if sp['fmt'][1] > 52:
                in_domain = False
        elif st.extra.get('val') is None and sto.route in ('ctor', 'like_kw', 'tpl_kw') and sto.src is None:
            vals = ((), [Fraction(0)])
        prop_inacc = any(status_dict(st.pre[i]['status']).get('inaccuracy') for i in sto.prop if i in st.pre)
        if st.extra.get('const_inexact'):
            prop_inacc = True     # the constant operand was itself quantized inexactly: it carries the flag
        # a re-entrant callback of the destination may have written to an OPERAND while this operation
        # was in flight; the wrappers read the operands' flags after the store, so the result may
        # legitimately carry a flag the operand only got during the step (seen: VERIF_SEED=122)
        prop_late = False
        if sto.prop and any(n.dest in sto.prop for n in all_nested(st)):
            prop_late = any(w.slots[i].alive and isinstance(w.slots[i].obj.status, dict) and
                            w.slots[i].obj.status.get('inaccuracy') for i in sto.prop)
        # ... and the other way round: an operand that was reset while the operation was in flight (it
        # is the register itself and its own handler reset it - fault F8 - or a nested step reset it) no
        # longer carries the flag when the wrapper reads it (seen: fxp_min(x, out=x), VERIF_SEED=504)
        if sto.prop and (('selfreset_at' in st.extra and st.dest in sto.prop) or
                         any((n.extra.get('reset') or 'selfreset_at' in n.extra) and n.dest in sto.prop
                             for n in all_nested(st))):
            prop_inacc = any(w.slots[i].alive and isinstance(w.slots[i].obj.status, dict) and
                             w.slots[i].obj.status.get('inaccuracy') for i in sto.prop)
            w.bump('c04_operand_reset_in_flight')
        post = {f: bool(tgt.status.get(f, False)) for f in FLAGS}
        aborted = st.outcome == 'aborted'
        judged_exact = False
        if not in_domain:
            vals = None     # outside the core domain only stickiness and propagation are judged
        if sto.arith is not None and st.extra.get('arith_route') == 'np' and \
                (st.dest is not None or st.extra.get('np_two_stage')):
            # NumPy route into config.array_op_out is two-stage: the library first builds the
            # ordinary result object (which carries the flags of the exact result) and then stores
            # THAT into the register, so the register's own write has the intermediate as input
            vals = None
        for i in sto.prop:
            if i in st.pre and st.pre[i]['fmt'][1] > 52:
                vals = None
        if vals is not None and sto.judge_flags and not any(isinstance(v, complex) for v in vals[1]):
            # Magnitudes: C04's quantifier restricts the FORMATS, not the inputs.  Inside the core
            # input domain everything is judged.  Beyond it only what cannot depend on the precision
            # of the library's intermediates is judged: under saturate, an element whose scaled
            # magnitude is >= 2^53 exceeds every <=52-bit word, so its overflow/underflow and its
            # inexactness are certain; such DIRECT writes are judged when they arrive as integers
            # (Python ints, integer arrays, raw codes), never under wrap.
            sat = cfg['overflow'] == 'saturate'
            # (as built, session 3: under wrap too - integer codes and integers reduce exactly modulo
            #  2^n_word, and which side they left the range on is as certain as under saturate)
            big_ok = sto.arith is None and (sto.raw or self.integer_carrier(st) or sto.src is not None or
                                                    (st.extra.get('val') is not None and
                                                     V.is_string_spec(st.extra['val']) and
                                                     not any(k_ in json.dumps(st.extra['val']) for k_ in ('"b"', '"h"'))))
            # (decimal literals too: however the library parses them, a magnitude of 2^53 LSB and more
            #  overflows every word of the domain)
            # (conversions from another object - resize, equal, x(y), Fxp(y, ...), x[i] = y - re-scale
            #  integer codes: their overflow is as certain as that of a Python integer)
            # (arithmetic is NOT included: operands are scaled in int64 and can wrap there silently -
            #  seen: 2**43 * 2**34 -> 0 in a subtraction with sizing 'same' - which is C19's subject)
            if sto.arith is not None and not in_exact_float_domain(vals[1], nf, False):
                vals = None
            elif not all((abs(Q.scale(v, nf)) < (1 << 62) and abs(v) < (1 << 53)) or
                         (big_ok and abs(Q.scale(v, nf)) >= (1 << 53)) for v in vals[1]):
                vals = None
            elif any(abs(Q.scale(v, nf)) >= (1 << 62) or abs(v) >= (1 << 53) for v in vals[1]):
                w.bump('c04_write_beyond_input_domain_judged')
        # ---- fault F8: a callback of this object wrote to it while this write was in flight
        sw = (st.extra.get('selfwrites') or [None])[0]
        inner = None
        if sw is not None:
            w.bump('c04_selfwrite_steps')
            if not sw.get('done') or st.outcome != 'ok' or vals is None or not sto.judge_flags or \
                    sto.arith is not None or sto.target != 'dest' or sw['fmt'] != tuple(fmt):
                vals = None       # only stickiness is judged
            else:
                try:
                    ish, iflat = V.exact(sw['val'], fmt)
                    if not all(abs(Q.scale(v, nf)) < (1 << 62) and abs(v) < (1 << 53) and
                               not isinstance(v, complex) for v in iflat):
                        raise ValueError('inner write beyond the input domain')
                    igot = np.asarray(sw['inner_val'])
                    iin = np.broadcast_to(obj_array(iflat, ish), np.shape(igot))
                    igl = igot.ravel().tolist()
                    iil = np.asarray(iin, dtype=object).ravel().tolist()
                    if not igl or not all(type(c) is int for c in igl):
                        raise ValueError('inner storage')
                    ird = [Q.rnd(Q.scale(v, nf), cfg['rounding']) for v in iflat]
                    lo_, hi_ = Q.bounds(s, nw)
                    inner = {'overflow': any(r > hi_ for r in ird), 'underflow': any(r < lo_ for r in ird),
                             'inaccuracy': any(Q.unscale(c, nf) != v for c, v in zip(igl, iil))}
                except Exception:
                    vals = None
        if inner is None and st.extra.get('ctor_inner_flags') and sto.target == 'new':
            # (a handler wrote into the object during its construction: what that write was observed to
            #  raise is part of what the finished object may carry)
            inner = {f_: bool(st.extra['ctor_inner_flags'].get(f_)) for f_ in FLAGS}
        if vals is not None and sto.judge_flags:
            try:
                got = np.asarray(tgt.val)
                if sw is not None and sw['site'] in ('on_status_inaccuracy', 'on_value_change'):
                    # the handler ran after this write's store: what this write stored is what the
                    # object held when the handler was entered
                    got = np.asarray(sw['entry_val'])
                if sto.region is not None:
                    got = got[sto.region] if not isinstance(sto.region, tuple) or sto.route != 'setitem_chain' \
                        else got[sto.region[0]][sto.region[1]]
                want_in = np.broadcast_to(obj_array(vals[1], vals[0]), np.shape(got))
                gl = np.asarray(got).ravel().tolist()
                il = np.asarray(want_in, dtype=object).ravel().tolist()
                judged_exact = True
            except Exception:
                judged_exact = False
        if judged_exact:
            lo, hi = Q.bounds(s, nw)
            rounded = [Q.rnd(Q.scale(v, nf), cfg['rounding']) for v in vals[1]]
            ovf_now = any(r > hi for r in rounded)
            udf_now = any(r < lo for r in rounded)
            if all(type(c) is int for c in gl) and gl:
                inacc_now = any(Q.unscale(c, nf) != v for c, v in zip(gl, il))
            else:
                judged_exact = False    # nothing stored (empty region) or non-integer storage
                if not gl and st.kind == 'indexed' and st.outcome == 'ok' and sw is None and \
                        'selfreset_at' not in st.extra and not st.nested:
                    # The index selects no element: nothing is stored, so no stored element can differ
                    # from its input - the inaccuracy flag must not come up and nobody is to be told of
                    # an inexact store.  (Overflow / underflow speak of the rounded input elements, which
                    # exist although none is stored: not judged here.)
                    w.bump('c04_empty_region_write_judged')
                    if post['inaccuracy'] and not pflags.get('inaccuracy', False) and not src_inacc:
                        w.violation('C04', 'flag-inaccuracy', st,
                                    {'flag': 'inaccuracy', 'before': False, 'after': True,
                                     'what': 'the index selects no element: nothing was stored',
                                     'fmt': [s, nw, nf], 'input': [str(v) for v in vals[1]][:6]}, culprit)
                        return
                    if any(site == 'on_status_inaccuracy' and k == st.dest for (c, site, k) in st.cb_events):
                        w.violation('C04', 'callback-on_status_inaccuracy', st,
                                    {'site': 'on_status_inaccuracy', 'expected': 0,
                                     'what': 'the index selects no element: nothing was stored',
                                     'fmt': [s, nw, nf], 'input': [str(v) for v in vals[1]][:6]}, culprit)
                        return
        if judged_exact and any(0 < abs(Q.scale(v, nf)) < Fraction(1, 1 << 1022) for v in vals[1]):
            # A scaled value below the smallest normal double (a subnormal input into a format with
            # negative n_frac): which way such a value rounds is C01/C05's business - the library's
            # float product underflows to zero - so the range flags of this write are not judged.  The
            # inaccuracy flag is: the stored element differs from its input whatever the rounding.
            judged_exact = False
            w.bump('c04_scaled_value_below_double_range')
            if sw is None and 'selfreset_at' not in st.extra and not aborted and not st.nested and \
                    inacc_now and not post['inaccuracy']:
                w.violation('C04', 'flag-inaccuracy', st,
                            {'flag': 'inaccuracy', 'before': pflags.get('inaccuracy', False), 'now': True, 'after': False,
                             'fmt': [s, nw, nf], 'input': [str(v) for v in vals[1]][:3], 'stored': gl[:6],
                             'what': 'a stored element differs from its (subnormal) input'}, culprit)
                return
        if judged_exact and sto.arith is not None:
            # the flags of an arithmetic result are judged against the exact result only when the
            # library stored exactly its quantization; a wrong VALUE is C07/C08's subject, not C04's
            # (seen: repr-method subtraction of unsigned operands wrapping in uint64; get_val() of an
            # object with a stale integer value type flooring its operands)
            if any(c != Q.quant(v, fmt, cfg['rounding'], cfg['overflow'])[0] for c, v in zip(gl, il)):
                judged_exact = False
                w.bump('c04_arith_value_not_exact_not_judged')
            elif cfg['overflow'] == 'wrap' and (ovf_now or udf_now):
                # under wrap the stored code only fixes the library's own intermediate modulo
                # 2**n_word, so "the library stored the exact result" cannot be established for a
                # result that leaves the range; such results are judged under saturate only
                # (in-range results, where wrap changes nothing, are still judged)
                judged_exact = False
                w.bump('c04_arith_wrapping_result_not_judged')
        if judged_exact:
            w.bump('c04_write_judged')
            if ovf_now and udf_now:
                w.bump('probe_ovf_and_udf_in_one_write')
            if ovf_now or udf_now:
                w.bump('probe_flag_raising_write')
            now = {'overflow': ovf_now, 'underflow': udf_now, 'inaccuracy': inacc_now}
            if inner is not None:
                w.bump('c04_selfwrite_judged')
            sr = st.extra.get('selfreset_at')
            if sr is not None and not aborted:
                # reset() ran inside this write: what was raised before it is gone, but a condition
                # whose notification ROUND started after the reset (observed order, none assumed; the
                # other callbacks of the round in which the reset happened are still being told about a
                # flag raised before it) was raised after it, and nothing lowered it since: that flag
                # must be up now
                w.bump('c04_selfreset_judged')
                for (c, site, k) in st.cb_events[sr:]:
                    f = site[len('on_status_'):] if site.startswith('on_status_') else None
                    if site == st.extra.get('selfreset_site'):
                        continue
                    if f in FLAGS and k == st.dest and now[f] and not post[f]:
                        w.violation('C04', 'flag-' + f, st,
                                    {'flag': f, 'after': post[f], 'what': 'raised after an in-write reset(), yet down at the end',
                                     'events_after_reset': [e[1] for e in st.cb_events[sr:]],
                                     'fmt': [s, nw, nf], 'input': [str(v) for v in vals[1]][:6]}, culprit)
                        return
            for f in FLAGS:
                if sr is not None:
                    break
                want = pflags.get(f, False) or now[f] or bool(inner and inner[f])
                if f == 'inaccuracy' and prop_inacc:
                    want = True
                ok = post[f] == want
                if f == 'inaccuracy' and src_inacc and post[f] is True:
                    ok = True   # documented propagation from an inexact Fxp source (issue #48)
                if f == 'inaccuracy' and prop_late and post[f] is True:
                    ok = True   # the operand became inexact while the operation was in flight
                if aborted:
                    ok = (post[f] or not pflags.get(f, False)) and (not post[f] or want or src_inacc)
                if not ok:
                    w.violation('C04', 'flag-' + f, st,
                                {'flag': f, 'before': pflags.get(f, False), 'now': now[f], 'after': post[f],
                                 'fmt': [s, nw, nf], 'rounding': cfg['rounding'], 'overflow': cfg['overflow'],
                                 'input': [str(v) for v in vals[1]][:6], 'stored': gl[:6],
                                 'outcome': st.outcome}, culprit)
                    return
            if sto.judge_cb and sto.target == 'dest' and cbs:
                exp = {'on_status_overflow': int(ovf_now), 'on_status_underflow': int(udf_now),
                       'on_status_inaccuracy': int(inacc_now), 'on_value_change': 1}
                if inner is not None:
                    # two writes happened on this object in this step: each is owed its own notifications
                    exp = {'on_status_overflow': exp['on_status_overflow'] + int(inner['overflow']),
                           'on_status_underflow': exp['on_status_underflow'] + int(inner['underflow']),
                           'on_status_inaccuracy': exp['on_status_inaccuracy'] + int(inner['inaccuracy']),
                           'on_value_change': 2}
                for cid in cbs:
                    if cid < 0 or cid in st.extra.get('f7_cids', ()):
                        continue    # (a callback that unregistered itself during this write is owed nothing more)
                    got_ev = {}
                    for (c, site, k) in st.cb_events:
                        if c == cid and k == st.dest:
                            got_ev[site] = got_ev.get(site, 0) + 1
                    implemented = w.cb_sites(cid)
                    for site, n in exp.items():
                        if site not in implemented:
                            n = 0      # (a callback is only owed the notifications it has a handler for)
                        g = got_ev.get(site, 0)
                        bad = (g > n) if aborted else (g != n)
                        if bad:
                            w.violation('C04', 'callback-' + site, st,
                                        {'callback': cid, 'site': site, 'expected': n, 'observed': g,
                                         'outcome': st.outcome, 'fmt': [s, nw, nf],
                                         'input': [str(v) for v in vals[1]][:6]}, culprit)
                            return
                    w.bump('c04_callback_set_judged')
        else:
            # only the one-directional rules
            for f in FLAGS:
                if 'selfreset_at' in st.extra:
                    break
                if pflags.get(f, False) and not post[f]:
                    w.violation('C04', 'flag-lowered', st, {'flag': f, 'slot': st.dest}, culprit)
                    return
        if 'selfreset_at' in st.extra and sto.arith is not None and st.extra.get('arith_route') == 'np' and \
                (st.dest is not None or st.extra.get('np_two_stage')):
            # NumPy route into a register is two-stage: the register's own write has the intermediate
            # result (an Fxp that carries the operands' flag) as its source, and the library hands a
            # source's flag on BEFORE it stores - so a handler of the register that resets it during
            # that store legitimately leaves it down (seen: VERIF_SEED=606)
            prop_inacc = False
        if prop_inacc and not aborted and not post['inaccuracy']:
            w.violation('C04', 'inaccuracy-propagation', st,
                        {'operands': list(sto.prop), 'arith': sto.arith}, culprit)
            return
        if prop_inacc:
            w.bump('probe_inaccuracy_propagated')

    @staticmethod
    def integer_carrier(st):
        """True iff the step's input value is carried by Python ints / integer NumPy data only."""
        val = st.extra.get('val')

        def ok(sp):
            if sp[0] == 'i':
                return True
            if sp[0] == 'n' or sp[0] == 'a':
                return 'int' in sp[1]
            if sp[0] in ('l', 't'):
                return all(ok(x) for x in sp[1])
            return False
        return val is not None and ok(val)

    def check_reset(self, w, st, culprit):
        d = st.dest
        o = w.slots[d].obj
        pre = status_dict(st.pre[d]['status'])
        if not isinstance(o.status, dict):
            w.violation('C04', 'reset-record', st, {'status': repr(o.status)}, culprit)
            return
        for f in FLAGS:
            if o.status.get(f, None) is not False:
                w.violation('C04', 'reset-flag', st, {'flag': f, 'value': repr(o.status.get(f))}, culprit)
                return
        for k in pre:
            if k not in o.status:
                w.violation('C04', 'reset-drops-key', st, {'missing_key': k}, culprit)
                return
        if 'extended_prec' in o.status and bool(o.status['extended_prec']) != (o.n_word >= 64):
            w.violation('C04', 'reset-extended_prec', st,
                        {'extended_prec': o.status['extended_prec'], 'n_word': o.n_word}, culprit)
            return
        if any(pre.get(f) for f in FLAGS):
            w.bump('probe_reset_of_raised_flag')


def all_nested(st):
    for n in st.nested:
        yield n
        for m in all_nested(n):
            yield m


# ====================================================================================== C10
CONV_ROUTES = ('resize', 'resize_dtype', 'like_kw', 'like_method', 'ctor_from', 'set_from_call',
               'set_from_set_val', 'equal', 'setitem_from')


class C10(Oracle):
    prop = 'C10'

    def after(self, w, st):
        sto = st.store
        if st.outcome == 'skipped' or sto is None or sto.src is None or sto.route not in CONV_ROUTES:
            return
        culprit = 'convert:' + sto.route
        src = sto.src
        allowed = allowed_set(st)
        sp = st.pre.get(src)
        if sp is None:
            return
        # ---- the source is left unchanged (also when the conversion is rejected or aborted)
        if src not in allowed and w.slots[src].alive:
            now = w.snap_obj(w.slots[src].obj)
            for k in ('fmt', 'codes', 'status', 'cfg', 'n_int', 'upper', 'lower', 'precision', 'dtype'):
                if k == 'dtype' and parse_dtype(sp[k]) is not None and parse_dtype(sp[k]) == parse_dtype(now[k]):
                    continue
                if not same(sp[k], now[k]):
                    w.violation('C10', 'source-changed', st,
                                {'field': k, 'before': short(sp[k]), 'after': short(now[k]),
                                 'outcome': st.outcome}, culprit)
                    return
        if st.outcome != 'ok' and not (sto.target == 'dest' and w.performed_before_abort(st)):
            return
        if st.outcome != 'ok':
            # aborted by the destination's own callback AFTER the store (the callback was told that
            # the value HAS changed): the conversion was performed and is judged like a completed one
            w.bump('c10_hop_aborted_after_store_judged')
        if sto.target == 'dest':
            if not w.slots[st.dest].alive:
                return
            tgt = w.slots[st.dest].obj
        else:
            tgt = st.ret
            if not isinstance(tgt, Fxp):
                w.violation('C10', 'result-type', st, {'type': type(tgt).__name__}, culprit)
                return
        ssh, kind, sflat = sp['codes']
        if kind not in 'iuO' or not all(type(c) is int for c in sflat):
            return
        if sp['scale'] not in (None, 1) or sp['bias'] not in (None, 0) or tgt.scaled:
            return
        snf = sp['fmt'][2]
        fmt = (bool(tgt.signed), tgt.n_word, tgt.n_frac)
        if sp['fmt'][1] > 52 or fmt[1] > 52:
            w.bump('c10_hop_out_of_domain')
            return
        # ---- destination format is the requested one
        req = sto.fmt_req
        if req is not None and all(x is not None for x in req):
            if (bool(req[0]), req[1], req[2]) != fmt:
                w.violation('C10', 'destination-format', st, {'requested': list(req), 'got': list(fmt)}, culprit)
                return
        # ---- who governs rounding / overflow
        if sto.modes_from is not None:
            cfg = dict(st.pre[sto.modes_from[1]]['cfg'])
            rounding, ovf = cfg['rounding'], cfg['overflow']
        else:
            kw = sto.kw_modes or {}
            tpl = st.extra.get('tpl')
            base = dict(st.pre[tpl]['cfg']) if tpl is not None and tpl in st.pre else \
                {'rounding': 'trunc', 'overflow': 'saturate'}
            rounding, ovf = kw.get('rounding', base['rounding']), kw.get('overflow', base['overflow'])
        a = obj_array(sflat, ssh)
        if sto.src_index is not None:
            try:
                a = np.asarray(a[sto.src_index], dtype=object)
            except Exception:
                return
        sshape = tuple(np.shape(a))
        sl = np.asarray(a, dtype=object).ravel().tolist()
        shift = fmt[2] - snf
        if abs(shift) > 62:
            w.bump('c10_hop_out_of_domain')
            return
        if any(abs(c) * (2 ** shift if shift >= 0 else 1) >= (1 << 62) for c in sl):
            # C10 quantifies over FORMAT pairs; the re-scaled code may well need more than 64 bits
            # (it then overflows the destination for certain: the bound under saturate, the low
            #  n_word bits under wrap)
            w.bump('c10_hop_rescaled_code_beyond_62_bits')
        exp = [Q.quant(Q.unscale(c, snf), fmt, rounding, ovf)[0] for c in sl]
        got = np.asarray(tgt.val)
        if sto.region is not None:
            try:
                got = got[sto.region]
            except Exception:
                return
        else:
            # ---- shape is preserved
            if tuple(np.shape(got)) != sshape:
                w.violation('C10', 'shape', st, {'source_shape': list(sshape),
                                                 'destination_shape': list(np.shape(got))}, culprit)
                return
        # (assignment, unlike np.broadcast_to, drops leading axes of length one: a (1, n) source fills an
        #  (n,) selection)
        bshape = sshape
        while len(bshape) > np.ndim(got) and bshape and bshape[0] == 1:
            bshape = bshape[1:]
        try:
            want = np.broadcast_to(obj_array(exp, bshape), np.shape(got))
        except Exception:
            w.violation('C10', 'shape', st, {'source_shape': list(sshape),
                                             'destination_region_shape': list(np.shape(got))}, culprit)
            return
        gl = np.asarray(got).ravel().tolist()
        wl = np.asarray(want, dtype=object).ravel().tolist()
        w.bump('c10_hop_judged')
        w.bump('c10_route_' + sto.route)
        slo, shi = Q.bounds(bool(sp['fmt'][0]), sp['fmt'][1])
        if sp['fmt'][1] <= 6 and len(sl) == shi - slo + 1 and sorted(sl) == list(range(slo, shi + 1)):
            w.bump('c10_hop_all_codes_of_source_format')
        inexact = any(Q.unscale(e, fmt[2]) != Q.unscale(c, snf) for e, c in zip(exp, sl))
        if inexact:
            w.bump('c10_hop_inexact_or_out_of_range')
            st.extra['hop_inexact'] = True
        for e, (g, x) in enumerate(zip(gl, wl)):
            if not (type(g) is int and g == x):
                w.violation('C10', 'value', st,
                            {'element': e, 'stored_code': repr(g), 'expected_code': x,
                             'source_code': sl[e % len(sl)] if sl else None, 'source_fmt': list(sp['fmt']),
                             'destination_fmt': list(fmt), 'rounding': rounding, 'overflow': ovf},
                            culprit)
                return


ORACLES = {'C02': C02, 'C04': C04, 'C10': C10, 'C20': C20}
