"""Fork-per-task process pool (no library code runs in the parent)."""
import os
import sys
import time


def forked(fn, tasks, workers, cap, progress=None):
    """Run fn(task) for every task, each in its OWN freshly forked child of this (clean) process,
    at most `workers` at a time; results in task order.  One process per task means a run can be
    influenced at most by the earlier runs of its own chunk, whatever process-global state the
    library under test may keep - so a failure always has a bounded, replayable prelude."""
    import pickle
    import select
    import signal
    pending = list(enumerate(tasks))
    running = {}
    results = [None] * len(tasks)
    t0 = time.time()
    try:
        while pending or running:
            while pending and len(running) < max(1, workers):
                idx, t = pending.pop(0)
                r, w = os.pipe()
                sys.stdout.flush()
                sys.stderr.flush()
                pid = os.fork()
                if pid == 0:
                    code = 0
                    try:
                        os.close(r)
                        try:
                            payload = pickle.dumps(('ok', fn(t)), protocol=pickle.HIGHEST_PROTOCOL)
                        except BaseException:
                            import traceback
                            payload = pickle.dumps(('err', traceback.format_exc()))
                            code = 3
                        with os.fdopen(w, 'wb') as f:
                            f.write(payload)
                    finally:
                        os._exit(code)
                os.close(w)
                running[r] = (pid, idx, bytearray())
            left = cap - (time.time() - t0)
            if left <= 0:
                raise TimeoutError('wall-clock safety cap of %ds reached' % cap)
            ready, _, _ = select.select(list(running), [], [], min(left, 5.0))
            for r in ready:
                pid, idx, buf = running[r]
                data = os.read(r, 1 << 20)
                if data:
                    buf.extend(data)
                    continue
                os.close(r)
                del running[r]
                os.waitpid(pid, 0)
                if not buf:
                    raise RuntimeError('worker for task %d died without a result' % idx)
                kind, val = pickle.loads(bytes(buf))
                if kind != 'ok':
                    raise RuntimeError('worker for task %d failed:\n%s' % (idx, val))
                results[idx] = val
                if progress is not None:
                    progress(sum(1 for r_ in results if r_ is not None), len(tasks))
    except BaseException:
        for r, (pid, idx, buf) in running.items():
            try:
                os.kill(pid, signal.SIGKILL)
                os.waitpid(pid, 0)
            except Exception:
                pass
        raise
    return results


