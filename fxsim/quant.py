"""Exact reference quantizer (shared oracle component, DESIGN 3.2).

Pure integer / Fraction arithmetic; no floats, no NumPy, nothing imported from the
library under test.
"""
from fractions import Fraction

ROUNDINGS = ('trunc', 'around', 'floor', 'ceil', 'fix')
OVERFLOWS = ('saturate', 'wrap')


def bounds(signed, n_word):
    if signed:
        hi = (1 << (n_word - 1)) - 1
        return -hi - 1, hi
    return 0, (1 << n_word) - 1


def scale(v, n_frac):
    """v * 2**n_frac as an exact Fraction."""
    v = Fraction(v)
    if n_frac >= 0:
        return v * (1 << n_frac)
    return v / (1 << -n_frac)


def unscale(code, n_frac):
    """code * 2**-n_frac as an exact Fraction."""
    return scale(Fraction(code), -n_frac)


def rnd(x, mode):
    """Round the exact rational x to an integer by the library's documented rule."""
    x = Fraction(x)
    n, d = x.numerator, x.denominator
    fl = n // d
    if d == 1:
        return fl
    if mode == 'floor':
        return fl
    if mode == 'ceil':
        return fl + 1
    if mode in ('trunc', 'fix'):
        return fl if n >= 0 else fl + 1
    if mode == 'around':
        r = x - fl
        if r < Fraction(1, 2):
            return fl
        if r > Fraction(1, 2):
            return fl + 1
        return fl if fl % 2 == 0 else fl + 1
    raise ValueError(mode)


def overflow(r, signed, n_word, mode):
    """(code, ovf, udf) for the rounded integer r."""
    lo, hi = bounds(signed, n_word)
    ovf, udf = r > hi, r < lo
    if mode == 'saturate':
        code = hi if ovf else lo if udf else r
    elif mode == 'wrap':
        m = 1 << n_word
        code = r % m
        if signed and code >= (m >> 1):
            code -= m
    else:
        raise ValueError(mode)
    return code, ovf, udf


def quant(v, fmt, rounding, ovf_mode):
    """Q(v, fmt, rounding, overflow) -> (code, ovf, udf); fmt = (signed, n_word, n_frac)."""
    signed, n_word, n_frac = fmt
    return overflow(rnd(scale(v, n_frac), rounding), signed, n_word, ovf_mode)


def selftest():
    """C05-style relations asserted on the oracle itself so it is not trusted blindly."""
    import random
    rng = random.Random(12345)
    for _ in range(20000):
        signed = rng.random() < 0.5
        n_word = rng.randint(1, 12)
        n_frac = rng.randint(-3, n_word + 3)
        v = Fraction(rng.randint(-(1 << 14), 1 << 14), 1 << rng.randint(0, 8))
        lo, hi = bounds(signed, n_word)
        s = scale(v, n_frac)
        for mode in ROUNDINGS:
            r = rnd(s, mode)
            assert abs(r - s) < 1
            if mode == 'floor':
                assert r <= s < r + 1
            if mode == 'ceil':
                assert r - 1 < s <= r
            if mode in ('trunc', 'fix'):
                assert abs(r) <= abs(s)
            if mode == 'around':
                assert abs(r - s) <= Fraction(1, 2)
                if abs(r - s) == Fraction(1, 2):
                    assert r % 2 == 0
            if s.denominator == 1:
                assert r == s
            for om in OVERFLOWS:
                code, o, u = overflow(r, signed, n_word, om)
                assert lo <= code <= hi
                assert not (o and u)
                if not o and not u:
                    assert code == r
                if om == 'wrap':
                    assert (code - r) % (1 << n_word) == 0
                else:
                    assert code == (hi if o else lo if u else r)
                # idempotence: re-quantising the stored value is a no-op
                c2, o2, u2 = quant(unscale(code, n_frac), (signed, n_word, n_frac), mode, om)
                assert (c2, o2, u2) == (code, False, False)
    return True


if __name__ == '__main__':
    print('quant selftest', selftest())
