"""One simulated run = one seed: draw a profile, generate-and-execute a program, judge it."""
import contextlib
import hashlib
import os
import random

from . import lib  # noqa: F401  (imports the library under test)
from .engine import World, HarnessError
from .gen import Gen, draw_profile
from .oracles import ORACLES, all_nested

DEFAULT_SEED = 20261001
# runs are executed in chunks of CHUNK consecutive indices, every chunk in its own freshly forked
# process: the first run of a chunk meets the library in the state a new process has
CHUNK = 200


def seed_for(verif_seed, prop, i):
    h = hashlib.sha256(('%d/%s/%d' % (verif_seed, prop, i)).encode()).digest()
    return int.from_bytes(h[:8], 'big')


def digest_of(world):
    return hashlib.sha256(repr(world.log).encode()).hexdigest()


def faults_enabled(i):
    """Run index decides the configuration: every third run is fault-free."""
    return i % 3 != 0


class RunResult(object):
    __slots__ = ('i', 'seed', 'ops', 'digest', 'violation', 'stats', 'steps', 'signature',
                 'nontrivial', 'profile', 'states', 'trigrams', 'outcomes', 'harness_error')


def abstract_state(w):
    """(hash of the abstract world state, set of slots carrying a raised flag) right now."""
    ws = []
    flagged = set()
    for i in w.live():
        o = w.slots[i].obj
        fl = tuple(bool(o.status.get(f)) for f in ('overflow', 'underflow', 'inaccuracy')) \
            if isinstance(o.status, dict) else None
        if fl and any(fl):
            flagged.add(i)
        ws.append((o.signed, o.n_word, o.n_frac, fl, w.slots[i].origin,
                   sum(1 for j in w.live() if w.slots[j].token == w.slots[i].token)))
    return hash(tuple(sorted(ws, key=repr))), frozenset(flagged)


def summarise(prop, w, steps, post=()):
    """(nontrivial, signature, abstract states, op trigrams) of a finished run."""
    kinds = []
    nontrivial = False
    derived = {}      # slot -> set of related slots (source <-> derived)
    flagged = set()
    hop_inexact_seen = False
    states = set()
    for idx, st in enumerate(steps):
        if idx < len(post):
            states.add(post[idx][0])
        flagged_before = post[idx - 1][1] if 0 < idx <= len(post) else frozenset()
        allst = [st] + list(all_nested(st))
        for s in allst:
            if s.outcome == 'skipped':
                continue
            tag = s.op['op']
            if tag in ('arith', 'reduce', 'unary', 'bitwise', 'shallow'):
                tag += ':' + str(s.op.get('f'))
            kinds.append((tag, s.outcome, s.depth, s.extra.get('f3_site'), s.extra.get('f4_site')))
            if prop == 'C20':
                if s.kind in ('derive', 'construct') and s.new and s.srcs:
                    for n in s.new:
                        for a in s.srcs:
                            derived.setdefault(n, set()).add(a)
                            derived.setdefault(a, set()).add(n)
                if s.kind in ('inplace', 'indexed', 'config') and s.dest is not None and derived.get(s.dest):
                    nontrivial = True
            elif prop == 'C02':
                if (s.kind == 'derive' and (s.new or s.ret_slot is not None)) or \
                        (s.store is not None and s.store.route.startswith('resize') and s.outcome == 'ok'):
                    nontrivial = True
            elif prop == 'C04':
                involved = set(([s.dest] if s.dest is not None else []) + list(s.srcs))
                if involved & flagged_before and s.kind in ('inplace', 'indexed', 'derive', 'construct'):
                    nontrivial = True
            elif prop == 'C10':
                if s.store is not None and s.store.src is not None and s.outcome == 'ok':
                    if hop_inexact_seen:
                        nontrivial = True
                    if s.extra.get('hop_inexact'):
                        hop_inexact_seen = True
    tri = set()
    names = [k[0] for k in kinds]
    for a in range(len(names) - 2):
        tri.add(hash((names[a], names[a + 1], names[a + 2])))
    alias = tuple(sorted((sum(1 for j in w.live() if w.slots[j].token == w.slots[i].token)) for i in w.live()))
    sig = hashlib.sha256(repr((tuple(kinds), alias)).encode()).hexdigest()[:16]
    return nontrivial, sig, states, tri


def quiet():
    """The library reports some conditions with print(); keep that out of the checks' output."""
    return contextlib.redirect_stdout(open(os.devnull, 'w'))


def run_one(prop, verif_seed, i, keep_ops=False, max_steps=None, banned=(), tier='quick'):
    with quiet():
        return _run_one(prop, verif_seed, i, keep_ops, max_steps, banned, tier)


def _run_one(prop, verif_seed, i, keep_ops=False, max_steps=None, banned=(), tier='quick'):
    seed = seed_for(verif_seed, prop, i)
    rng = random.Random(seed)
    faults = faults_enabled(i)
    prof = draw_profile(rng, prop, faults, tier)
    prof['pristine'] = (i % CHUNK == 0)       # nothing of the library has run in this process yet
    w = World([ORACLES[prop]()], prof)
    w.reset_globals()
    g = Gen(rng, prof, w, banned)
    ops = []
    steps = []
    post = []
    n = prof.steps if max_steps is None else min(prof.steps, max_steps)
    herr = None
    try:
        for _ in range(n):
            op = g.next_op()
            ops.append(op)
            steps.append(w.execute(op))
            g.note(steps[-1])
            post.append(abstract_state(w))
            if w.halt:
                break
    except Exception:
        # a fault of the simulator itself: this run is discarded (never judged, never a pass
        # of its own); the batch reports how many there were and fails if they are not rare
        import traceback
        herr = traceback.format_exc()
    finally:
        w.reset_globals()
    r = RunResult()
    r.i, r.seed = i, seed
    r.harness_error = herr
    r.digest = digest_of(w)
    r.violation = (w.violations[0] if w.violations else None) if herr is None else None
    r.ops = ops if (keep_ops or r.violation is not None) else None
    r.stats = w.stats
    r.steps = w.seq
    r.profile = dict(prof)
    r.nontrivial, r.signature, r.states, r.trigrams = summarise(prop, w, steps, post)
    return r


def replay_ops(prop, ops, prelude=()):
    """Execute a recorded op list in a fresh world (no generator, no PRNG).  `prelude` is a list
    of op lists that are executed first, each in its own world, in this same process: the runs
    that preceded the failing one in its worker, needed only when the library under test carries
    process-global state from one run into the next."""
    with quiet():
        return _replay_ops(prop, ops, prelude)


def _replay_ops(prop, ops, prelude=()):
    for pl in prelude:
        wp = World([], None)
        wp.reset_globals()
        try:
            for op in pl:
                wp.execute(op)
        finally:
            wp.reset_globals()
    w = World([ORACLES[prop]()], None)
    w.reset_globals()
    try:
        for op in ops:
            w.execute(op)
            if w.halt:
                break
    finally:
        w.reset_globals()
    return w


def chunk_ops(args):
    """Op lists of runs start..upto (inclusive), regenerated in this (fresh) process."""
    prop, verif_seed, start, upto, banned, tier = args
    out = []
    for i in range(start, upto + 1):
        out.append(run_one(prop, verif_seed, i, keep_ops=True, banned=banned, tier=tier).ops)
    return out
