"""Sensitivity self-test (DESIGN 3.9): every mutant in /verif/mutants and every seeded change in
/verif/seeded/<id>/patch.diff is applied to a scratch copy of /repo's fxpmath package, the
property's check is run against that copy and must exit 1 with a reproducing replay; the same
replay must NOT reproduce on the unmodified tree.  Scratch copies are removed at once.

usage: python -m fxsim.selftest [--runs N] [--only ID[,ID...]] [--examples]
"""
import argparse
import json
import os
import re
import shutil
import subprocess
import sys
import tempfile
import time

HERE = os.path.dirname(os.path.dirname(os.path.abspath(__file__)))
REPO = os.path.abspath(os.environ.get('FXSIM_REPO', '/repo'))
PROPS = ('C02', 'C04', 'C10', 'C20')
QUICK_RUNS = 24000


def sh(cmd, env=None, cwd=None, timeout=3600):
    p = subprocess.run(cmd, stdout=subprocess.PIPE, stderr=subprocess.STDOUT, env=env, cwd=cwd, timeout=timeout)
    return p.returncode, p.stdout.decode(errors='replace')


def targets():
    out = []
    idx = os.path.join(HERE, 'mutants', 'index.json')
    if os.path.exists(idx):
        for m in json.load(open(idx)):
            out.append({'id': m['id'], 'patch': os.path.join(HERE, 'mutants', m['patch']),
                        'property': m.get('property'), 'what': m.get('what'), 'kind': m.get('kind'),
                        'properties': m.get('properties'), 'masked': m.get('masked')})
    sd = os.path.join(HERE, 'seeded')
    if os.path.isdir(sd):
        for d in sorted(os.listdir(sd)):
            p = os.path.join(sd, d, 'patch.diff')
            if os.path.exists(p):
                meta = {}
                mp = os.path.join(sd, d, 'meta.json')
                if os.path.exists(mp):
                    meta = json.load(open(mp))
                out.append({'id': 'S-' + d, 'patch': p, 'property': meta.get('property'),
                            'what': meta.get('summary'), 'kind': 'seeded-by-subagent',
                            'assessment': meta.get('assessment'), 'neutralised': meta.get('neutralised')})
    return out


def one(t, runs, use_examples):
    scratch = tempfile.mkdtemp(prefix='fxsim_self_')
    res = {'id': t['id'], 'kind': t['kind'], 'what': t['what'], 'declared_property': t['property'], 'checks': {}}
    if t.get('assessment'):
        res['assessment'] = t['assessment']      # why a miss is expected (outside what the property states)
    if t.get('neutralised'):
        res['status'] = 'skipped: neutralised by a later fix of the library (%s)' % t['neutralised']
        shutil.rmtree(scratch, ignore_errors=True)
        return res
    try:
        shutil.copytree(os.path.join(REPO, 'fxpmath'), os.path.join(scratch, 'fxpmath'))
        rc, out = sh(['patch', '-p1', '-s', '-d', scratch, '-i', t['patch']])
        if rc != 0:
            res['status'] = 'skipped: patch does not apply to the current tree'
            res['patch_output'] = out[-300:]
            return res
        props = [t['property']] if t['property'] in PROPS else list(t.get('properties') or PROPS)
        caught = False
        for prop in props:
            env = dict(os.environ)
            env['FXSIM_REPO'] = scratch
            env['FXSIM_OUT'] = os.path.join(scratch, 'out')
            if not use_examples:
                env['FXSIM_NO_EXAMPLES'] = '1'
            t0 = time.time()
            rc, out = sh([os.path.join(HERE, 'check'), prop, '--runs', str(runs)], env=env, cwd=HERE)
            used = runs
            if rc == 0 and runs < QUICK_RUNS and len(props) <= 2:
                # not found in the short batch: give it the size of the quick tier
                rc, out = sh([os.path.join(HERE, 'check'), prop, '--runs', str(QUICK_RUNS)], env=env, cwd=HERE)
                used = QUICK_RUNS
            classes = re.findall(r'violation class clause=(\S+) culprit=(\S+) first at run (\d+), minimised (\d+) -> (\d+) ops', out)
            replays = re.findall(r'VIOLATION property=\S+ replay=(\S+)', out)
            entry = {'exit': rc, 'runs': used, 'wall_s': round(time.time() - t0, 1),
                     'classes': [{'clause': c[0], 'culprit': c[1], 'first_run': int(c[2]),
                                  'ops_before': int(c[3]), 'ops_after': int(c[4])} for c in classes[:6]]}
            if rc == 1 and replays:
                # the replay must be silent on the unmodified tree
                env2 = dict(os.environ)
                env2['FXSIM_REPO'] = REPO
                rc2, out2 = sh([os.path.join(HERE, 'check'), prop, '--replay', replays[0]], env=env2, cwd=HERE)
                entry['replay_on_unmodified_tree'] = 'silent' if rc2 == 0 else 'ALSO FAILS (exit %d)' % rc2
                caught = True
            elif rc not in (0, 1):
                entry['output_tail'] = out[-600:]
            res['checks'][prop] = entry
            if caught and (t['property'] in PROPS or t.get('properties')):
                break
        res['status'] = 'caught' if caught else ('masked (not detectable inside the domain): ' + t['masked']
                                                 if t.get('masked') else 'MISSED')
        return res
    finally:
        shutil.rmtree(scratch, ignore_errors=True)


def main():
    ap = argparse.ArgumentParser()
    ap.add_argument('--runs', type=int, default=12000)
    ap.add_argument('--only')
    ap.add_argument('--examples', action='store_true',
                    help='also let the checks replay the committed examples of fixed findings first')
    args = ap.parse_args()
    ts = targets()
    if args.only:
        want = set(args.only.split(','))
        ts = [t for t in ts if t['id'] in want]
    results = []
    for t in ts:
        r = one(t, args.runs, args.examples)
        results.append(r)
        print('%-12s %-8s %s  %s' % (r['id'], r.get('status'), r.get('declared_property'),
                                     {p: (c['exit'], [x['clause'] + '/' + x['culprit'] for x in c['classes']][:2])
                                      for p, c in r['checks'].items()}))
        sys.stdout.flush()
    out = {'runs_per_check': args.runs, 'examples_replayed_first': bool(args.examples),
           'caught': sum(1 for r in results if r.get('status') == 'caught'),
           'missed': sum(1 for r in results if r.get('status') == 'MISSED'),
           'skipped': sum(1 for r in results if str(r.get('status')).startswith('skipped')),
           'masked': sum(1 for r in results if str(r.get('status')).startswith('masked')),
           'results': results}
    os.makedirs(os.path.join(HERE, 'evidence'), exist_ok=True)
    name = 'selftest.json' if not args.only else 'selftest-partial.json'
    json.dump(out, open(os.path.join(HERE, 'evidence', name), 'w'), indent=1)
    print('caught %d, missed %d, skipped %d' % (out['caught'], out['missed'], out['skipped']))
    return 0


if __name__ == '__main__':
    sys.exit(main())
