"""Concrete, JSON-serialisable value specifications.

A *valspec* fixes both the exact mathematical value (a dyadic rational, or a nested
structure of them) and the carrier object handed to the library:

  ["i", n]                       Python int n (any size)
  ["f", num, exp]                Python float == num * 2**exp exactly
  ["n", dtype, num, exp]         NumPy scalar of that dtype (exactly representable)
  ["s", num, exp]                decimal string of num * 2**exp (terminating expansion)
  ["d", num, exp]                decimal.Decimal holding num * 2**exp exactly
  ["b", bits]                    binary string "0b<bits>" (value depends on destination format)
  ["h", hexdigits]               hex string "0x<digits>"   (value depends on destination format)
  ["l", [valspec, ...]]          list          ["t", [valspec, ...]]  tuple
  ["a", dtype, shape, [[num, exp], ...]]   ndarray of that dtype, C order; an optional fifth item gives
                                           the memory layout: "F" column-major, "S" strided view of a
                                           larger array, "R" reversed (negative stride)

`exact(spec, fmt)` returns (shape, flat list of Fraction); `carrier(spec)` builds a fresh
Python object every time it is called (so the library can never alias a previous one).
"""
from fractions import Fraction
import math

import numpy as np


def dy(num, exp):
    return Fraction(num) * (Fraction(2) ** exp)


def frac_to_pair(fr):
    """Fraction with power-of-two denominator -> (num, exp) with odd num (or 0)."""
    fr = Fraction(fr)
    d = fr.denominator
    assert d & (d - 1) == 0, 'not dyadic: %r' % (fr,)
    exp = -(d.bit_length() - 1)
    num = fr.numerator
    while num and num % 2 == 0 and exp < 0:
        num //= 2
        exp += 1
    return num, exp


def dec_str(fr):
    """Terminating decimal expansion of a dyadic rational."""
    fr = Fraction(fr)
    sign = '-' if fr < 0 else ''
    fr = abs(fr)
    ip = fr.numerator // fr.denominator
    rest = fr - ip
    if rest == 0:
        return '%s%d' % (sign, ip)
    digits = []
    while rest:
        rest *= 10
        d = rest.numerator // rest.denominator
        digits.append(str(d))
        rest -= d
    return '%s%d.%s' % (sign, ip, ''.join(digits))


def float_ok(fr):
    """True iff the dyadic rational is exactly a finite double."""
    fr = Fraction(fr)
    if fr == 0:
        return True
    num = abs(fr.numerator)
    while num % 2 == 0:
        num //= 2
    if num.bit_length() > 53:
        return False
    try:
        return Fraction(float(fr)) == fr
    except OverflowError:
        return False


def _bits_value(bits, fmt):
    """Value the library documents for a binary literal stored into `fmt` (C11):
    the two's-complement reading of the literal (sign-extended) when the destination is
    signed, its plain reading otherwise, divided by 2**n_frac when n_frac > 0."""
    signed, n_word, n_frac = fmt
    neg = bits.startswith('-')
    if neg:
        bits = bits[1:]
    v = int(bits, 2)
    if signed and bits[0] == '1':
        v -= 1 << len(bits)
    if neg:
        v = -v      # an explicit minus sign negates the literal's value (the library warns for signed)
    if n_frac is not None and n_frac > 0:
        return Fraction(v, 1 << n_frac)
    return Fraction(v)


def _hex_value(digits, fmt):
    """Hex literals are zero-padded (not sign-extended) to n_word bits, then read as
    two's complement when the destination is signed."""
    signed, n_word, n_frac = fmt
    v = int(digits, 16)
    if n_word is None:
        n_word = 4 * len(digits)
    if signed and v >= (1 << (n_word - 1)):
        v -= 1 << n_word
    if n_frac is not None and n_frac > 0:
        return Fraction(v, 1 << n_frac)
    return Fraction(v)


def exact(spec, fmt=None):
    """(shape, flat list of Fraction) for a valspec; fmt only needed for b/h strings."""
    k = spec[0]
    if k == 'i':
        return (), [Fraction(spec[1])]
    if k == 'f':
        return (), [dy(spec[1], spec[2])]
    if k == 'n':
        return (), [dy(spec[2], spec[3])]
    if k in ('s', 'd'):
        return (), [dy(spec[1], spec[2])]
    if k == 'b':
        return (), [_bits_value(spec[1], fmt)]
    if k == 'h':
        return (), [_hex_value(spec[1], fmt)]
    if k in ('l', 't'):
        subs = [exact(s, fmt) for s in spec[1]]
        if not subs:
            return (0,), []
        sh0 = subs[0][0]
        flat = []
        for sh, fl in subs:
            assert sh == sh0, 'ragged'
            flat.extend(fl)
        return (len(subs),) + tuple(sh0), flat
    if k == 'a':
        return tuple(spec[2]), [dy(n, e) for n, e in spec[3]]
    if k == 'sa':
        return tuple(spec[2]), [_bits_value(b, fmt) for b in spec[3]]
    raise ValueError('bad valspec %r' % (spec,))


def _np_dtype(name):
    return np.dtype(name).type


def carrier(spec):
    """Fresh Python object for the library."""
    k = spec[0]
    if k == 'i':
        return int(spec[1])
    if k == 'f':
        return math.ldexp(spec[1], spec[2])
    if k == 'n':
        t = _np_dtype(spec[1])
        fr = dy(spec[2], spec[3])
        if np.issubdtype(t, np.integer):
            return t(int(fr))
        return t(math.ldexp(spec[2], spec[3]))
    if k == 's':
        return dec_str(dy(spec[1], spec[2]))
    if k == 'd':
        import decimal
        return decimal.Decimal(dec_str(dy(spec[1], spec[2])))     # exact: built from the digit string
    if k == 'b':
        return '0b' + spec[1]
    if k == 'h':
        return '0x' + spec[1]
    if k == 'l':
        return [carrier(s) for s in spec[1]]
    if k == 't':
        return tuple(carrier(s) for s in spec[1])
    if k == 'sa':
        # ["sa", "O" | "U", shape, [bits, ...], prefixed]: a NumPy array of binary literals, of dtype object
        # or of a fixed-width string type, with or without the '0b' prefix (from_bin takes them without)
        items = [('0b' if (len(spec) > 4 and spec[4]) else '') + b for b in spec[3]]
        arr = np.empty(len(items), dtype=object)
        for i, it in enumerate(items):
            arr[i] = it
        if spec[1] != 'O':
            arr = arr.astype(str)
        return arr.reshape(tuple(spec[2]))
    if k == 'x':
        # an input type the library does not support (fault F2): must be rejected
        if spec[1:] and spec[1] == 'str':
            return 'zz'                       # not a number in any notation
        if spec[1:] and spec[1] == 'ragged':
            return [1, [2, 3]]                # not a rectangular array
        return {'unsupported': 1} if not spec[1:] or spec[1] == 'dict' else {1, 2}
    if k == 'a':
        vals = [dy(n, e) for n, e in spec[3]]
        if spec[1] == 'str':
            # a NumPy array of decimal literals
            return np.array([dec_str(v) for v in vals]).reshape(tuple(spec[2]))
        dt = np.dtype(spec[1])
        if dt == np.dtype(object):
            # an array of Python numbers: whole values as int, the others as float (mixed element types)
            arr = np.empty(len(vals), dtype=object)
            for i, (v, (n, e)) in enumerate(zip(vals, spec[3])):
                arr[i] = int(v) if v.denominator == 1 else math.ldexp(n, e)
            return arr.reshape(tuple(spec[2]))
        if np.issubdtype(dt, np.integer):
            flat = [int(v) for v in vals]
        else:
            flat = [math.ldexp(n, e) for n, e in spec[3]]
        arr = np.array(flat, dtype=dt).reshape(tuple(spec[2]))
        layout = spec[4] if len(spec) > 4 else 'C'
        if layout == 'F':
            arr = np.asfortranarray(arr)                 # column-major buffer
        elif layout == 'S' and arr.ndim >= 1 and arr.size:
            big = np.zeros(tuple(2 * n for n in arr.shape), dtype=dt)
            view = big[tuple(slice(None, None, 2) for _ in arr.shape)]
            view[...] = arr
            arr = view                                    # a strided, non-contiguous view of a larger array
        elif layout == 'R' and arr.ndim >= 1:
            arr = arr[::-1].copy()[::-1]                  # negative stride along the first axis
        return arr
    raise ValueError('bad valspec %r' % (spec,))


def is_string_spec(spec):
    k = spec[0]
    if k in ('s', 'b', 'h'):
        return True
    if k == 'a' and spec[1] == 'str':
        return True
    if k == 'sa':
        return True
    if k in ('l', 't'):
        return any(is_string_spec(s) for s in spec[1])
    return False


def same_container(a, b):
    """Deep equality of two caller-owned containers, including element types."""
    if type(a) is not type(b):
        return False
    if isinstance(a, np.ndarray):
        if a.dtype == object or b.dtype == object:
            return a.dtype == b.dtype and a.shape == b.shape and same_container(a.tolist(), b.tolist())
        return a.dtype == b.dtype and a.shape == b.shape and a.tobytes() == b.tobytes()
    if isinstance(a, (list, tuple)):
        return len(a) == len(b) and all(same_container(x, y) for x, y in zip(a, b))
    if isinstance(a, float) and a != a:
        return b != b
    return a == b


def is_numeric_container(a):
    """ndarray of numbers, or (nested) list/tuple of plain numbers - no strings."""
    if isinstance(a, np.ndarray):
        return a.dtype.kind in 'iuf'
    if isinstance(a, (list, tuple)):
        return len(a) > 0 and all(is_numeric_container(x) for x in a)
    return isinstance(a, (int, float, np.integer, np.floating)) and not isinstance(a, bool)


def describe_container(a):
    if isinstance(a, np.ndarray):
        return ['ndarray', str(a.dtype), list(a.shape), a.tolist()]
    if isinstance(a, (list, tuple)):
        return [type(a).__name__, [describe_container(x) for x in a]]
    return [type(a).__name__, repr(a)]
