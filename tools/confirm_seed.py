#!/venv/bin/python
"""Confirm a change proposed by a sub-agent and file it under /verif/seeded/<id>/.

usage: tools/confirm_seed.py <worktree> <id>

Confirms, in scratch copies outside /repo and /verif:
  * the patch applies to /repo's HEAD,
  * the existing test suite gives the baseline result with the patch (86 passed, same 3 failures),
  * the demonstration fails with the patch and passes without it.
Then copies patch.diff, demo.py (made root-relative: FXP_ROOT, default /repo) and meta.json.
"""
import json
import os
import re
import shutil
import subprocess
import sys
import tempfile

HERE = os.path.dirname(os.path.dirname(os.path.abspath(__file__)))


def sh(cmd, **kw):
    p = subprocess.run(cmd, stdout=subprocess.PIPE, stderr=subprocess.STDOUT, **kw)
    return p.returncode, p.stdout.decode(errors='replace')


def main():
    wt, sid = sys.argv[1], sys.argv[2]
    patch = os.path.join(wt, 'patch.diff')
    demo = open(os.path.join(wt, 'demo.py')).read()
    meta = json.load(open(os.path.join(wt, 'meta.json')))
    demo = demo.replace('"%s"' % wt, 'FXP_ROOT').replace("'%s'" % wt, 'FXP_ROOT')
    if wt in demo:
        demo = demo.replace(wt, '" + FXP_ROOT + "')
    demo = 'import os\nFXP_ROOT = os.environ.get("FXP_ROOT", "/repo")\n' + demo
    base = tempfile.mkdtemp(prefix='fxsim_seed_')
    ran = {}
    try:
        clean = os.path.join(base, 'clean')
        mut = os.path.join(base, 'mut')
        for d in (clean, mut):
            os.makedirs(d)
            rc, out = sh(['git', '-C', '/repo', 'archive', 'HEAD', 'fxpmath', 'tests'], )
            p = subprocess.run('git -C /repo archive HEAD fxpmath tests | tar -x -C %s' % d, shell=True)
        rc, out = sh(['patch', '-p1', '-s', '-d', mut, '-i', patch])
        ran['patch_applies'] = rc == 0
        if rc != 0:
            print('patch does not apply:\n' + out)
            return 1
        dp = os.path.join(base, 'demo.py')
        open(dp, 'w').write(demo)
        for name, root in (('without', clean), ('with', mut)):
            env = dict(os.environ, FXP_ROOT=root, PYTHONPATH=root)
            rc, out = sh(['/venv/bin/python', dp], env=env, cwd=base, timeout=600)
            ran['demo_%s_change' % name] = {'exit': rc, 'last_line': out.strip().splitlines()[-1][:300] if out.strip() else ''}
        env = dict(os.environ, PYTHONPATH=mut)
        rc, out = sh(['/venv/bin/python', '-m', 'pytest', '-q', '-p', 'no:cacheprovider', '--timeout=900'], env=env, cwd=mut,
                     timeout=1800)
        tail = out.strip().splitlines()[-1]
        failed = sorted(set(re.findall(r'FAILED (\S+)', out)))
        ran['tests_with_change'] = {'summary': tail, 'failed': failed}
        ok = (ran['demo_without_change']['exit'] == 0 and ran['demo_with_change']['exit'] != 0 and
              '86 passed' in tail and '3 failed' in tail and
              failed == sorted(['tests/test_extended_precision.py::test_numpy_ufunc',
                                'tests/test_issues.py::test_issue_77_v0_4_8', 'tests/test_operators.py::test_pow']))
        print(json.dumps(ran, indent=1))
        if not ok:
            print('NOT CONFIRMED')
            return 1
        dst = os.path.join(HERE, 'seeded', sid)
        os.makedirs(dst, exist_ok=True)
        shutil.copy(patch, os.path.join(dst, 'patch.diff'))
        open(os.path.join(dst, 'demo.py'), 'w').write(demo)
        meta_out = {'property': meta.get('property'), 'summary': meta.get('summary'), 'needs': meta.get('needs'),
                    'author': 'independent sub-agent given only the property text and a scratch worktree',
                    'confirmed_by_me': ran,
                    'how_to_run_demo': 'FXP_ROOT=<tree with patch applied> /venv/bin/python seeded/%s/demo.py' % sid}
        json.dump(meta_out, open(os.path.join(dst, 'meta.json'), 'w'), indent=1)
        print('CONFIRMED -> ' + dst)
        return 0
    finally:
        shutil.rmtree(base, ignore_errors=True)


if __name__ == '__main__':
    sys.exit(main())
