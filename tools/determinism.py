#!/venv/bin/python
"""Large determinism self-test (DESIGN 3.5): the same seeds must give bit-identical event logs
 * twice in one process,
 * in fresh interpreters under different PYTHONHASHSEED values,
 * with 1 worker and with 16 workers (batch digests of the partitioned search).
Writes /verif/evidence/determinism.json.  exit 0 iff everything agrees.

usage: tools/determinism.py [runs-per-property]
"""
import json
import os
import subprocess
import sys
import time

HERE = os.path.dirname(os.path.dirname(os.path.abspath(__file__)))
sys.path.insert(0, HERE)


def fresh(prop, n, hashseed, seed):
    env = dict(os.environ, PYTHONHASHSEED=str(hashseed), VERIF_SEED=str(seed))
    p = subprocess.run(['/venv/bin/python', '-m', 'fxsim.cli', prop, '--det-digest', str(n)], cwd=HERE, env=env,
                       stdout=subprocess.PIPE, stderr=subprocess.PIPE, timeout=7200)
    if p.returncode != 0:
        return 'FAILED: ' + p.stderr.decode()[-300:]
    return p.stdout.decode().strip().split('\n')[-1]


def main():
    n = int(sys.argv[1]) if len(sys.argv) > 1 else 3000
    from fxsim import cli
    from fxsim.run import DEFAULT_SEED
    out = {'runs_per_property': n, 'properties': {}}
    ok = True
    t0 = time.time()
    for prop in cli.PROPS:
        r = {}
        for seed in (DEFAULT_SEED, 1, 987654321):
            os.environ['VERIF_SEED'] = str(seed)
            a = cli.det_digest(prop, seed, n)
            b = cli.det_digest(prop, seed, n)
            fr = {hs: fresh(prop, n, hs, seed) for hs in (0, 1, 4242, 'random')}
            w1 = cli.aggregate(cli.run_batch(prop, seed, n, 1, 7200))['digest']
            w16 = cli.aggregate(cli.run_batch(prop, seed, n, 16, 7200))['digest']
            w5 = cli.aggregate(cli.run_batch(prop, seed, n, 5, 7200))['digest']
            good = a == b and all(v == a for v in fr.values()) and w1 == w16 == w5
            ok = ok and good
            r[str(seed)] = {'in_process_twice_equal': a == b,
                            'fresh_interpreters_equal': {str(k): v == a for k, v in fr.items()},
                            'workers_1_5_16_equal': w1 == w16 == w5, 'digest': a, 'batch_digest': w1, 'ok': good}
            print(prop, seed, 'ok' if good else 'MISMATCH', flush=True)
        out['properties'][prop] = r
    out['ok'] = ok
    out['wall_s'] = round(time.time() - t0, 1)
    json.dump(out, open(os.path.join(HERE, 'evidence', 'determinism.json'), 'w'), indent=1)
    return 0 if ok else 2


if __name__ == '__main__':
    sys.exit(main())
