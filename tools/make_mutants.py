#!/venv/bin/python
"""Generate /verif/mutants/*.patch from textual replacements against /repo's current sources,
plus the reverse of every `fix:` commit (the original defects).  Each mutant is kept only if the
repository's own test suite still gives the baseline result with it (86 passed, 3 known failures).

usage: tools/make_mutants.py [--no-tests]
"""
import json
import os
import shutil
import subprocess
import sys
import tempfile

HERE = os.path.dirname(os.path.dirname(os.path.abspath(__file__)))
REPO = '/repo'
OUT = os.path.join(HERE, 'mutants')

# (id, property, description, file, old, new)
MUTANTS = [
    ('M01', 'C20', 'like= constructor path makes a shallow copy of the template state',
     'fxpmath/objects.py',
     "            if isinstance(like, Fxp):\n                self.__dict__ = copy.deepcopy(like.__dict__)",
     "            if isinstance(like, Fxp):\n                self.__dict__ = copy.copy(like.__dict__)"),
    ('M02', 'C20', 'config= argument is stored without a copy (results share the first operand config)',
     'fxpmath/objects.py',
     "                self.config = _config.deepcopy()",
     "                self.config = _config"),
    ('M03', 'C20', '__getitem__ returns a copy instead of a view (x[i][j]=v no longer writes through)',
     'fxpmath/objects.py',
     "        y.val = self.val[index]\n        return y",
     "        y.val = np.array(self.val[index])\n        return y"),
    ('M05', 'C04', 'reset() forgets the inaccuracy flag',
     'fxpmath/objects.py',
     "            'underflow': False,\n            'inaccuracy': False,\n            'extended_prec': self.n_word >= _n_word_max}",
     "            'underflow': False,\n            'inaccuracy': self.status['inaccuracy'],\n            'extended_prec': self.n_word >= _n_word_max}"),
    ('M06', 'C04', 'overflow flag raised on >= max instead of > max',
     'fxpmath/objects.py',
     "        if np.any(new_val > val_max):",
     "        if np.any(new_val >= val_max):"),
    ('M07', 'C04', 'on_value_change delivered twice for indexed writes',
     'fxpmath/objects.py',
     "        # run changed value callback\n        self._run_callbacks('on_value_change')",
     "        # run changed value callback\n        self._run_callbacks('on_value_change')\n        if index is not None: self._run_callbacks('on_value_change')"),
    ('M08', 'C04', 'resize() restores the status it had before re-storing the value',
     'fxpmath/objects.py',
     "                self.set_val(utils.shift_raw(_old_val, self.n_frac - _old_n_frac), raw=True)\n        else:",
     "                _st = dict(self.status)\n                self.set_val(utils.shift_raw(_old_val, self.n_frac - _old_n_frac), raw=True)\n                self.status.update({k: _st[k] for k in ('overflow', 'underflow', 'inaccuracy')})\n        else:"),
    ('M09', 'C02', 'resize() computes n_int as if the word were always signed',
     'fxpmath/objects.py',
     "        # n_int    \n        self.n_int = self.n_word - self.n_frac - (1 if self.signed else 0)",
     "        # n_int    \n        self.n_int = self.n_word - self.n_frac - 1"),
    ('M10', 'C02', 'left shift in trunc/keep mode assigns the shifted codes without clamping',
     'fxpmath/objects.py',
     "        y = Fxp(None, signed=self.signed, n_word=n_word, n_frac=self.n_frac)\n        y.set_val(self.val << np.array(n, dtype=self.val.dtype), raw=True, vdtype=self.vdtype)   # set raw val shifted",
     "        y = Fxp(None, signed=self.signed, n_word=n_word, n_frac=self.n_frac)\n        if self.config.shifting == 'expand':\n            y.set_val(self.val << np.array(n, dtype=self.val.dtype), raw=True, vdtype=self.vdtype)   # set raw val shifted\n        else:\n            y.val = self.val << np.array(n, dtype=self.val.dtype)"),
    ('M11', 'C10', 'like() quantizes with the rounding mode of the source instead of the template',
     'fxpmath/objects.py',
     "            return  Fxp(like=x).set_val(new_raw_val, raw=True)",
     "            y = Fxp(like=x)\n            y.config.rounding = self.config.rounding\n            return  y.set_val(new_raw_val, raw=True)"),
    ('M13', 'C20', 'deepcopy() returns a shallow copy',
     'fxpmath/objects.py',
     "    def deepcopy(self):\n        return copy.deepcopy(self)\n\n    def like(self, x):",
     "    def deepcopy(self):\n        return copy.copy(self)\n\n    def like(self, x):"),
    ('M14', 'C02', 'precision computed from |n_frac| (wrong for negative fraction lengths)',
     'fxpmath/objects.py',
     "            self.precision = 1 / 2.0**self.n_frac\n",
     "            self.precision = 1 / 2.0**abs(self.n_frac)\n"),
    ('M16', 'C04', 'inaccuracy of the second operand is not propagated to arithmetic results',
     'fxpmath/functions.py',
     "    if x.status['inaccuracy'] or y.status['inaccuracy']:\n        z.status['inaccuracy'] = True",
     "    if x.status['inaccuracy']:\n        z.status['inaccuracy'] = True"),
    ('M17', 'C20', 'Config.update() bypasses the validating setters',
     'fxpmath/objects.py',
     "            if hasattr(self, k):\n                setattr(self, k, v)",
     "            if hasattr(self, k):\n                if '_' + k in self.__dict__:\n                    self.__dict__['_' + k] = v\n                else:\n                    setattr(self, k, v)"),
    ('M18', 'C10', 'equal() narrows the source raw value with an integer shift (always floor)',
     'fxpmath/objects.py',
     "            new_val_raw = utils.shift_raw(x.val, self.n_frac - x.n_frac)\n            self.set_val(new_val_raw, raw=True, index=index)",
     "            if self.n_frac >= x.n_frac:\n                new_val_raw = utils.shift_raw(x.val, self.n_frac - x.n_frac)\n            else:\n                new_val_raw = x.val // 2**(x.n_frac - self.n_frac)\n            self.set_val(new_val_raw, raw=True, index=index)"),
    ('M32', 'C20', '__getitem__ sorts a list index in place (the caller\'s index container is modified)',
     'fxpmath/objects.py',
     "        y = Fxp(like=self)\n        y.val = self.val[index]\n        return y",
     "        y = Fxp(like=self)\n        if isinstance(index, list):\n            index.sort()\n        y.val = self.val[index]\n        return y"),
    ('M33', 'C20', '__setitem__ turns a list index into a tuple (selects one element instead of several rows)',
     'fxpmath/objects.py',
     "    def __setitem__(self, index, value):\n        self.set_val(value, index=index)",
     "    def __setitem__(self, index, value):\n        if isinstance(index, list):\n            index = tuple(index)\n        self.set_val(value, index=index)"),
    ('M34', 'C04', 'np.negative & co. (generic NumPy wrapper) propagate inaccuracy only to fresh results, not to out= registers',
     'fxpmath/objects.py',
     "        if inaccuracy and isinstance(result, self.__class__):\n            result.status['inaccuracy'] = True",
     "        if inaccuracy and isinstance(result, self.__class__) and out is None:\n            result.status['inaccuracy'] = True"),
    ('M36', 'C04', 'object-dtype arrays are cast to the type of their first element again (original defect of fix ceba123; its plain reverse no longer applies)',
     'fxpmath/objects.py',
     "            if val.dtype == object and not all(isinstance(v, (int, np.integer)) for v in val.flat):",
     "            if False and val.dtype == object and not all(isinstance(v, (int, np.integer)) for v in val.flat):"),
    ('M37', 'C10', 'utils.shift_raw multiplies in the machine word again (original defect of fix 63c49e7; its plain reverse no longer applies)',
     'fxpmath/utils.py',
     "    if shift > 0 and isinstance(raw, (np.ndarray, np.generic)) and raw.dtype.kind in 'iu' and raw.size > 0:",
     "    if False and shift > 0 and isinstance(raw, (np.ndarray, np.generic)) and raw.dtype.kind in 'iu' and raw.size > 0:"),
    ('M38', 'C02', 'Python integers in [2**63, 2**64) become uint64 arrays again (original defect of fix 9e7c6f7; its plain reverse no longer applies)',
     'fxpmath/objects.py',
     "        if _from_python and val.dtype == np.uint64 and val.size > 0 and int(val.max()) >= 2**63:",
     "        if False and _from_python and val.dtype == np.uint64 and val.size > 0 and int(val.max()) >= 2**63:"),
    ('M39', 'C10', 'equal() indexes the source with None again (original defect of fix 3bb6526: a leading axis; its plain reverse no longer applies)',
     'fxpmath/objects.py',
     "            new_val_raw = utils.shift_raw(x.val, self.n_frac - x.n_frac)\n            self.set_val(new_val_raw, raw=True, index=index)",
     "            raw_val = x.val[index] if index is None else x.val\n            new_val_raw = utils.shift_raw(raw_val, self.n_frac - x.n_frac)\n            self.set_val(new_val_raw, raw=True, index=index)"),
    ('M35', 'C10', 'utils.shift_raw switches to Python integers one bit too late (products in [2**63, 2**64) still wrap)',
     'fxpmath/utils.py',
     "<< shift >= 2**63:",
     "<< shift >= 2**64:"),
    ('M22', 'C04', 'inaccuracy callback not delivered for indexed writes',
     'fxpmath/objects.py',
     "            self.status['inaccuracy'] = True\n            self._run_callbacks('on_status_inaccuracy')",
     "            self.status['inaccuracy'] = True\n            if index is None: self._run_callbacks('on_status_inaccuracy')"),
    ('M23', 'C04', 'underflow flag only raised under saturate (wrap wraps silently)',
     'fxpmath/objects.py',
     "        if np.any(new_val < val_min):\n            self.status['underflow'] = True",
     "        if np.any(new_val < val_min) and self.config.overflow == 'saturate':\n            self.status['underflow'] = True"),
    ('M25', 'C10', 'Fxp sources are narrowed with floor division in every route',
     'fxpmath/objects.py',
     "            val = val.val * 2**(self.n_frac - val.n_frac)\n            raw = True",
     "            if self.n_frac >= val.n_frac:\n                val = val.val * 2**(self.n_frac - val.n_frac)\n            else:\n                val = val.val // 2**(val.n_frac - self.n_frac)\n            raw = True"),
    ('M26', 'C20', 'function results keep a reference to the status record of the first operand when it is inexact',
     'fxpmath/functions.py',
     "    # propagate inaccuracy from arguments\n    if x.status['inaccuracy'] or y.status['inaccuracy']:\n        z.status['inaccuracy'] = True\n\n    return z   ",
     "    # propagate inaccuracy from arguments\n    if x.status['inaccuracy'] and out is None:\n        z.status = x.status\n    elif y.status['inaccuracy']:\n        z.status['inaccuracy'] = True\n\n    return z   "),
    ('M31', 'C04', 'narrow integer list elements are not widened before scaling (original defect of fix 55d0631, float part kept)',
     'fxpmath/objects.py',
     "            if val.dtype.kind in 'iu' and val.dtype.itemsize < 8:\n                vdtype = int\n            # and narrow float elements would be compared with the format limits in their own\n            # precision, missing an overflow by one code\n            elif val.dtype.kind == 'f' and val.dtype.itemsize < 8:",
     "            # and narrow float elements would be compared with the format limits in their own\n            # precision, missing an overflow by one code\n            if val.dtype.kind == 'f' and val.dtype.itemsize < 8:"),
    ('M28', 'C02', 'saturation of Python-integer (object) inputs clamps on the magnitude',
     'fxpmath/objects.py',
     "            if isinstance(new_val, np.ndarray) and new_val.dtype == object:\n                val = np.clip(new_val, val_min, val_max)",
     "            if isinstance(new_val, np.ndarray) and new_val.dtype == object:\n                val = np.clip(np.abs(new_val), val_min, val_max)"),
    ('M30', 'C10', 'resize(dtype=...) ignores the sign letter of the format string',
     'fxpmath/objects.py',
     "            signed, n_word, n_frac, complex_flag = self._parseformatstr(dtype)\n\n            self.vdtype = complex if complex_flag else self.vdtype\n\n        # n_int defined:\n        if n_word is None and n_frac is not None and n_int is not None:\n            n_word = n_int + n_frac + (1 if self.signed else 0)\n        elif n_frac is None and n_word is not None and n_int is not None:\n            n_frac = n_word - n_int - (1 if self.signed else 0)\n\n        # sign\n        if signed is not None:",
     "            signed, n_word, n_frac, complex_flag = self._parseformatstr(dtype)\n            signed = None\n\n            self.vdtype = complex if complex_flag else self.vdtype\n\n        # n_int defined:\n        if n_word is None and n_frac is not None and n_int is not None:\n            n_word = n_int + n_frac + (1 if self.signed else 0)\n        elif n_frac is None and n_word is not None and n_int is not None:\n            n_frac = n_word - n_int - (1 if self.signed else 0)\n\n        # sign\n        if signed is not None:"),
]


def run(cmd, **kw):
    return subprocess.run(cmd, stdout=subprocess.PIPE, stderr=subprocess.STDOUT, **kw)


def tests_ok(root):
    env = dict(os.environ)
    env['PYTHONPATH'] = root
    p = run(['/venv/bin/python', '-m', 'pytest', '-q', '-p', 'no:cacheprovider', '--timeout=900', '-x',
             '--deselect', 'tests/test_extended_precision.py::test_numpy_ufunc',
             '--deselect', 'tests/test_issues.py::test_issue_77_v0_4_8',
             '--deselect', 'tests/test_operators.py::test_pow'], cwd=root, env=env)
    out = p.stdout.decode(errors='replace')
    return p.returncode == 0 and '86 passed' in out, out[-400:]


def main():
    do_tests = '--no-tests' not in sys.argv
    os.makedirs(OUT, exist_ok=True)
    index = []
    base = tempfile.mkdtemp(prefix='fxsim_mut_')
    try:
        # textual mutants
        for mid, prop, desc, fname, old, new in MUTANTS:
            root = os.path.join(base, mid)
            os.makedirs(root)
            shutil.copytree(os.path.join(REPO, 'fxpmath'), os.path.join(root, 'fxpmath'))
            shutil.copytree(os.path.join(REPO, 'tests'), os.path.join(root, 'tests'))
            p = os.path.join(root, fname)
            src = open(p).read()
            if src.count(old) != 1:
                print('%s: pattern occurs %d times - skipped' % (mid, src.count(old)))
                shutil.rmtree(root)
                continue
            open(p, 'w').write(src.replace(old, new))
            d = run(['diff', '-u', '--label', 'a/' + fname, '--label', 'b/' + fname,
                     os.path.join(REPO, fname), p]).stdout.decode()
            ok, tail = tests_ok(root) if do_tests else (True, '')
            name = '%s-%s.patch' % (mid, prop)
            if ok:
                open(os.path.join(OUT, name), 'w').write(d)
                index.append({'id': mid, 'patch': name, 'property': prop, 'what': desc, 'kind': 'hand-written',
                              'existing_tests_pass': ok})
                print('%s ok (%s)' % (mid, prop))
            else:
                print('%s: breaks the existing tests - dropped\n%s' % (mid, tail))
            shutil.rmtree(root)
        # reverse of every fix: commit
        log = run(['git', '-C', REPO, 'log', '--format=%h %s', '--reverse']).stdout.decode().splitlines()
        known = json.load(open(os.path.join(HERE, 'known_findings.json')))['findings']
        n = 0
        for line in log:
            h, subj = line.split(' ', 1)
            if not subj.startswith('fix:'):
                continue
            n += 1
            d = run(['git', '-C', REPO, 'diff', h, h + '^', '--', 'fxpmath']).stdout.decode()
            name = 'R%02d-revert-%s.patch' % (n, h)
            open(os.path.join(OUT, name), 'w').write(d)
            props = sorted(set(k['property'] for k in known if k.get('commit') == h))
            entry = {'id': 'R%02d' % n, 'patch': name, 'property': None, 'properties': props,
                     'what': 'reverse of ' + line, 'kind': 'revert-of-fix', 'existing_tests_pass': True}
            if 'raised AttributeError' in subj:
                entry['masked'] = ('since fix 7111e68 stores sub-64-bit words as int64, astype(int) no longer meets a '
                                   'Python-int code inside the core domain (n_word<=52): reverting this fix alone '
                                   'changes nothing there')
            if h.startswith('1135375'):
                entry['masked'] = ('since fix 5d642c6 rounds the values on the Python-number path, the path that small '
                                   'np.uint64 lists took before fix 1135375 no longer raises the spurious flag: the '
                                   'original defect cannot come back by reverting 1135375 alone')
            index.append(entry)
            print('R%02d %s' % (n, line))
    finally:
        shutil.rmtree(base, ignore_errors=True)
    json.dump(index, open(os.path.join(OUT, 'index.json'), 'w'), indent=1)


if __name__ == '__main__':
    main()
