#!/venv/bin/python
"""Merge evidence/selftest-partial.json (a `python -m fxsim.selftest --only ...` run) into
evidence/selftest.json: entries with the same id are replaced, new ones appended, counts recomputed."""
import json
import os

HERE = os.path.dirname(os.path.dirname(os.path.abspath(__file__)))
full_p = os.path.join(HERE, 'evidence', 'selftest.json')
part = json.load(open(os.path.join(HERE, 'evidence', 'selftest-partial.json')))
full = json.load(open(full_p))
by_id = {x['id']: i for i, x in enumerate(full['results'])}
for x in part['results']:
    if x['id'] in by_id:
        full['results'][by_id[x['id']]] = x
    else:
        full['results'].append(x)


def kind(x):
    s = str(x['status']).lower()
    return 'caught' if s == 'caught' else 'missed' if s.startswith('missed') else \
        'masked' if s.startswith('masked') else 'skipped'


for k in ('caught', 'missed', 'masked', 'skipped'):
    full[k] = sum(1 for x in full['results'] if kind(x) == k)
json.dump(full, open(full_p, 'w'), indent=1)
print({k: full[k] for k in ('caught', 'missed', 'masked', 'skipped')}, len(full['results']))
