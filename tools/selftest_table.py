#!/venv/bin/python
"""Render evidence/selftest.json as the markdown table of DESIGN.md section 11 (between the
SELFTEST_TABLE_BEGIN / SELFTEST_TABLE_END markers)."""
import json
import os
import re

HERE = os.path.dirname(os.path.dirname(os.path.abspath(__file__)))
r = json.load(open(os.path.join(HERE, 'evidence', 'selftest.json')))
rows = ['| change | kind | what it does | caught by (clause/culprit of the first classes) | runs given | replay on the unmodified tree |',
        '|---|---|---|---|---|---|']
for x in r['results']:
    what = (x.get('what') or '').replace('|', '/')
    if len(what) > 150:
        what = what[:147] + '...'
    caught = []
    runs = ''
    silent = ''
    for p, c in x['checks'].items():
        if c['exit'] == 1:
            caught.append('**%s**: %s' % (p, ', '.join('%s/%s' % (k['clause'], k['culprit']) for k in c['classes'][:2])))
            runs = str(c.get('runs', ''))
            silent = c.get('replay_on_unmodified_tree', '')
    status = x['status']
    if status == 'caught':
        cell = '; '.join(caught)
    elif status.lower() == 'missed' and x.get('assessment'):
        cell = '*missed - expected: outside what the property states or beyond a stated limit (see its meta.json and section 11)*'
    else:
        cell = '*%s*' % status.split(':')[0]
    rows.append('| `%s` | %s | %s | %s | %s | %s |' % (x['id'], x['kind'], what, cell, runs, silent))
n_neutral = sum(1 for x in r['results'] if 'neutralised' in str(x.get('status')))
n_expected = sum(1 for x in r['results'] if str(x.get('status')).lower() == 'missed' and x.get('assessment'))
summary = ('%d changes: %d caught, %d missed (%d of them expected: outside what the property states or beyond a stated '
           'limit), %d masked, %d skipped (%d reverse patches that no longer apply to the edited tree - the hand-written '
           'stand-ins M31, M36-M39 take their place - and %d seeded changes neutralised by later fixes of the library); '
           '%d runs per check (quick-tier size 24000 if not found with fewer); committed example replays %s.' % (
               len(r['results']), r['caught'], r['missed'], n_expected, r.get('masked', 0), r['skipped'],
               r['skipped'] - n_neutral, n_neutral, r['runs_per_check'],
               'also replayed' if r['examples_replayed_first'] else 'NOT replayed (the search alone has to find the change)'))
table = summary + '\n\n' + '\n'.join(rows)
p = os.path.join(HERE, 'DESIGN.md')
s = open(p).read()
if 'SELFTEST_TABLE_BEGIN' in s:
    s = re.sub(r'<!-- SELFTEST_TABLE_BEGIN -->.*?<!-- SELFTEST_TABLE_END -->',
               lambda m: '<!-- SELFTEST_TABLE_BEGIN -->\n' + table + '\n<!-- SELFTEST_TABLE_END -->', s, flags=re.S)
else:
    s = s.replace('SELFTEST_TABLE', '<!-- SELFTEST_TABLE_BEGIN -->\n' + table + '\n<!-- SELFTEST_TABLE_END -->')
open(p, 'w').write(s)
print(summary)
